package main

import (
	"encoding/json"
	"fmt"
	"os"
	"path/filepath"
	"sort"
)

func writeEvidence(prop, tier string, seed uint64, pc propCfg, results []result, aggs []aggregate, nviol int, knownHit map[string]int, wallS, buildS float64, workers int) {
	distinct := map[string]bool{}
	states := map[string]bool{}
	faults := map[string]int{}
	probes := map[string]int{}
	cfgHist := map[string]map[string]int{}
	var simMS, steps int64
	trunc, evals, stuck := 0, 0, 0
	var samples []any
	for _, r := range results {
		nontrivial := r.Steps > 0 || r.Evals > 0
		if nontrivial {
			sh := r.Shape
			if len(sh) > 16 {
				sh = sh[:16]
			}
			distinct[sh+"/"+r.StateSig] = true
		}
		if r.StateSig != "" {
			states[r.StateSig] = true
		}
		for k, v := range r.Faults {
			faults[k] += v
		}
		for k, v := range r.Probes {
			probes[k] += v
		}
		for k, v := range r.Cfg {
			if cfgHist[k] == nil {
				cfgHist[k] = map[string]int{}
			}
			s := fmt.Sprint(v)
			if len(cfgHist[k]) < 12 || cfgHist[k][s] > 0 {
				cfgHist[k][s]++
			}
		}
		simMS += r.SimMS
		steps += int64(r.Steps)
		if r.Trunc {
			trunc++
		}
		if r.Stuck != "" {
			stuck++
		}
		if r.Evals > 0 {
			evals += r.Evals
		} else {
			evals++
		}
		if len(samples) < 3 && (len(r.Trace) > 0 || r.Sample != nil) {
			tr := r.Trace
			if len(tr) > 40 {
				tr = tr[:40]
			}
			samples = append(samples, map[string]any{"run": r.Run, "seed": r.Seed, "cfg": r.Cfg, "decisions": tr, "outcome": r.Sample, "steps": r.Steps})
		}
	}
	nruns := len(results)
	maxRun := 0
	for _, r := range results {
		if r.Run > maxRun {
			maxRun = r.Run
		}
	}
	for _, a := range aggs {
		nruns += a.Runs
		evals += a.Evals
		steps += a.Steps
		simMS += a.SimMS
		trunc += a.Trunc
		for k, v := range a.Faults {
			faults[k] += v
		}
		for k, v := range a.Probes {
			probes[k] += v
		}
		for k, m := range a.Cfg {
			if cfgHist[k] == nil {
				cfgHist[k] = map[string]int{}
			}
			for sv, n := range m {
				if len(cfgHist[k]) < 12 || cfgHist[k][sv] > 0 {
					cfgHist[k][sv] += n
				}
			}
		}
		for _, sh := range a.Shapes {
			distinct[sh] = true
		}
		for _, st := range a.States {
			states[st] = true
		}
		if a.MaxRun > maxRun {
			maxRun = a.MaxRun
		}
	}
	if len(samples) == 0 {
		samples = append(samples, map[string]any{"note": "no sample recorded"})
	}
	searchS := wallS - buildS
	if searchS <= 0 {
		searchS = 1
	}
	cov := map[string]any{
		"evaluations":         evals,
		"distinct_nontrivial": len(distinct),
		"rule":                pc.Rule + " A run is non-trivial if the scheduler released at least one parked operation (or the scenario evaluated at least one enumerated case); runs are distinct by the SHA-256 of their decision log (every released operation with its task, descriptor and injected fault, plus workload notes) after random identifiers (token ids, UUIDs, serials) have been replaced by their order of first appearance, so two runs differing only in random identifiers count once.",
		"samples":             samples,
		"runs":                nruns,
		"runs_per_hour":       int(float64(nruns) / searchS * 3600),
		"seeds":               fmt.Sprintf("VERIF_SEED=%d, run indices 0..%d (run seed = mix(VERIF_SEED, index))", seed, maxRun),
		"scheduler_steps":     steps,
		"simulated_time_s":    float64(simMS) / 1000,
		"faults_fired":        faults,
		"probes":              probes,
		"truncated_runs":      trunc,
		"stuck_runs":          stuck,
		"swarm_config":        cfgHist,
		"workers":             workers,
		"build_s":             buildS,
		"real_components":     pc.Real,
		"stubbed_components":  pc.Stub,
		"known_findings_hit":  knownHit,
	}
	if len(states) > 0 {
		cov["distinct_abstract_states"] = len(states)
	}
	ev := map[string]any{
		"property_id": prop,
		"tier":        tier,
		"seed":        seed,
		"level":       pc.Level,
		"coverage":    cov,
		"assumptions": pc.Assumptions,
		"wall_s":      wallS,
		"violations":  nviol,
	}
	b, _ := json.MarshalIndent(ev, "", " ")
	dir := filepath.Join(verifDir, "evidence")
	os.MkdirAll(dir, 0o755)
	if err := os.WriteFile(filepath.Join(dir, prop+".json"), append(b, '\n'), 0o644); err != nil {
		die(2, "write evidence: %v", err)
	}
	keys := make([]string, 0, len(faults))
	for k := range faults {
		keys = append(keys, k)
	}
	sort.Strings(keys)
	fmt.Printf("%s %s: %d runs (%d evaluations, %d distinct), %d steps, %.0fs simulated, faults %v, %d truncated, %.0fs wall\n",
		prop, tier, nruns, evals, len(distinct), steps, float64(simMS)/1000, faults, trunc, wallS)
}
