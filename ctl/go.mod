module verifctl

go 1.23
