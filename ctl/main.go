package main

// verifctl — driver of the deterministic-simulation checks.
//
//   verifctl setup                         build everything (MANIFEST.setup_cmd)
//   verifctl check <id> [--tier quick|thorough]
//   verifctl replay <id> <file>
//   verifctl selftest <id>                 determinism self-test (same seeds, several processes / GOMAXPROCS)
//
// Exit codes: 0 property held on everything explored (known findings are
// printed as KNOWN-FINDING lines); 1 + "VIOLATION property=<id> replay=<path>";
// 2 build / harness / watchdog trouble (never reported as a violation).

import (
	"bufio"
	"bytes"
	"encoding/json"
	"fmt"
	"os"
	"os/exec"
	"path/filepath"
	"runtime"
	"sort"
	"strconv"
	"strings"
	"sync"
	"time"
)

func die(code int, format string, a ...any) {
	fmt.Fprintf(os.Stderr, "verifctl: "+format+"\n", a...)
	os.Exit(code)
}

func main() {
	if len(os.Args) < 2 {
		die(2, "usage: verifctl setup | check <id> [--tier t] | replay <id> <file> | selftest <id>")
	}
	switch os.Args[1] {
	case "setup":
		if err := prepare(); err != nil {
			die(2, "prepare: %v", err)
		}
		if _, err := buildEngine(); err != nil {
			die(2, "%v", err)
		}
		fmt.Println("setup ok")
	case "manifest":
		writeManifest()
	case "prepare":
		if err := prepare(); err != nil {
			die(2, "prepare: %v", err)
		}
	case "check":
		if len(os.Args) < 3 {
			die(2, "check <id>")
		}
		tier := os.Getenv("VERIF_TIER")
		if tier == "" {
			tier = "quick"
		}
		for i := 3; i < len(os.Args); i++ {
			if os.Args[i] == "--tier" && i+1 < len(os.Args) {
				tier = os.Args[i+1]
				i++
			} else if os.Args[i] == "--replay" && i+1 < len(os.Args) {
				os.Exit(doReplay(os.Args[2], os.Args[i+1]))
			}
		}
		os.Exit(doCheck(os.Args[2], tier))
	case "replay":
		if len(os.Args) < 4 {
			die(2, "replay <id> <file>")
		}
		os.Exit(doReplay(os.Args[2], os.Args[3]))
	case "selftest":
		if len(os.Args) < 3 {
			die(2, "selftest <id>")
		}
		os.Exit(doSelftest(os.Args[2]))
	default:
		die(2, "unknown command %q", os.Args[1])
	}
}

// ---- per-property configuration ----

type propCfg struct {
	Level       string  // exploration | fault_enumeration
	QuickS      int     // wall-clock budget of the search, seconds
	ThoroughS   int
	Chunk       int     // runs per worker process before it is recycled
	Rule        string  // how cases are generated / what makes one distinct
	LevelText   string
	LevelNote   string
	Technique   string
	Assumptions []string
	Real        []string
	Stub        []string
}

var commonStub = []string{"disk under the Core (simdisk: sorted map + mutation log)", "clock (testing/synctest fake clock)", "mutexes of openbao's own packages (simsync: scheduler-granted, same mutual exclusion)", "crypto/rand.Reader (seeded ChaCha8)", "HTTP layer (requests enter at Core.HandleRequest)", "HA / cluster networking (absent)"}

var props = map[string]propCfg{}

func envInt(name string, def int) int {
	if v := os.Getenv(name); v != "" {
		if n, err := strconv.Atoi(v); err == nil {
			return n
		}
	}
	return def
}

// ---- results ----

type violation struct {
	Property  string         `json:"property"`
	Class     string         `json:"class"`
	Signature map[string]any `json:"signature,omitempty"`
	Message   string         `json:"message"`
}

type result struct {
	Prop     string         `json:"prop"`
	Scenario string         `json:"scenario"`
	Run      int            `json:"run"`
	Seed     uint64         `json:"seed"`
	Hash     string         `json:"hash"`
	Shape    string         `json:"shape"`
	Steps    int            `json:"steps"`
	SimMS    int64          `json:"sim_ms"`
	WallMS   int64          `json:"wall_ms"`
	Faults   map[string]int `json:"faults"`
	Probes   map[string]int `json:"probes"`
	Cfg      map[string]any `json:"cfg"`
	Evals    int            `json:"evals"`
	Trunc    bool           `json:"trunc"`
	Stuck    string         `json:"stuck"`
	Panic    string         `json:"panic"`
	Viol     *violation     `json:"violation"`
	Soft     []*violation   `json:"soft"`
	Tape     []uint32       `json:"tape"`
	Trace    []string       `json:"trace"`
	Sample   any            `json:"sample"`
	StateSig string         `json:"state_sig"`
}

type aggregate struct {
	Agg    bool                      `json:"agg"`
	Runs   int                       `json:"runs"`
	Evals  int                       `json:"evals"`
	Steps  int64                     `json:"steps"`
	SimMS  int64                     `json:"sim_ms"`
	Trunc  int                       `json:"trunc"`
	Faults map[string]int            `json:"faults"`
	Probes map[string]int            `json:"probes"`
	Cfg    map[string]map[string]int `json:"cfg"`
	Shapes []string                  `json:"shapes"`
	States []string                  `json:"states"`
	MaxRun int                       `json:"max_run"`
	Viols  map[string]*struct {
		Viol  *violation `json:"violation"`
		Count int        `json:"count"`
	} `json:"viols"`
}

type replayFile struct {
	Property  string         `json:"property"`
	Scenario  string         `json:"scenario"`
	BaseSeed  uint64         `json:"base_seed"`
	Run       int            `json:"run"`
	Tier      string         `json:"tier"`
	Cfg       map[string]any `json:"cfg,omitempty"`
	Tape      []uint32       `json:"tape"`
	Class     string         `json:"class"`
	Signature map[string]any `json:"signature,omitempty"`
	Message   string         `json:"message"`
	Hash      string         `json:"hash"`
	Trace     []string       `json:"trace,omitempty"`
	Minimised bool           `json:"minimised"`
}

// ---- known findings ----

type knownFinding struct {
	ID       string         `json:"id"`
	Property string         `json:"property"`
	Status   string         `json:"status"` // "known" | "fixed"
	Class    string         `json:"class"`
	Match    map[string]any `json:"match,omitempty"` // every key must equal the violation's signature value
	What     string         `json:"what"`
	Commit   string         `json:"commit,omitempty"`
}

func loadKnown() []knownFinding {
	b, err := os.ReadFile(filepath.Join(verifDir, "known_findings.json"))
	if err != nil {
		return nil
	}
	var f struct {
		Findings []knownFinding `json:"findings"`
	}
	if err := json.Unmarshal(b, &f); err != nil {
		die(2, "known_findings.json: %v", err)
	}
	return f.Findings
}

func (k knownFinding) matches(v *violation) bool {
	if k.Status != "known" || k.Property != v.Property || k.Class != v.Class {
		return false
	}
	for key, want := range k.Match {
		got, ok := v.Signature[key]
		if !ok || fmt.Sprint(got) != fmt.Sprint(want) {
			return false
		}
	}
	return true
}

// ---- running workers ----

func engineCmd(bin string, args ...string) *exec.Cmd {
	cmd := exec.Command(bin, append([]string{"-test.run", "^TestEngine$", "-test.timeout", "0", "-test.count", "1"}, args...)...)
	cmd.Dir = verifDir
	// One P per engine process: between two quiescent points the Go runtime
	// then runs the woken goroutines one at a time in run-queue order, so the
	// residual parallelism (timer-woken system goroutines) is deterministic
	// too. Parallelism comes from running many engine processes.
	cmd.Env = append(os.Environ(), "GODEBUG=randseednop=0", "GOMAXPROCS=1")
	return cmd
}

type workerOut struct {
	results []result
	trouble string
}

// runWorkers explores run indices 0,1,2,... with `workers` processes until
// the budget is used up. Each process is recycled after `chunk` runs.
func runWorkers(bin, prop, tier string, seed uint64, budget time.Duration, workers, chunk int, tmp string) ([]result, []aggregate, string) {
	deadline := time.Now().Add(budget)
	var mu sync.Mutex
	var all []result
	var aggs []aggregate
	trouble := ""
	var wg sync.WaitGroup
	for w := 0; w < workers; w++ {
		wg.Add(1)
		go func(w int) {
			defer wg.Done()
			next := w
			out := filepath.Join(tmp, fmt.Sprintf("w%d.jsonl", w))
			for time.Now().Before(deadline) {
				left := time.Until(deadline)
				cmd := engineCmd(bin,
					"-verif.prop", prop, "-verif.seed", fmt.Sprint(seed), "-verif.tier", tier,
					"-verif.start", fmt.Sprint(next), "-verif.stride", fmt.Sprint(workers),
					"-verif.chunk", fmt.Sprint(chunk), "-verif.budget", left.String(), "-verif.out", out)
				var stderr bytes.Buffer
				cmd.Stderr = &stderr
				cmd.Stdout = &stderr
				err := cmd.Run()
				m := ""
				for _, l := range strings.Split(stderr.String(), "\n") {
					if strings.HasPrefix(l, "VERIF-NEXT ") {
						m = strings.TrimPrefix(l, "VERIF-NEXT ")
					}
				}
				if err != nil || m == "" {
					mu.Lock()
					if trouble == "" {
						s := stderr.String()
						if len(s) > 20000 {
							s = s[:8000] + "\n...\n" + s[len(s)-12000:]
						}
						trouble = fmt.Sprintf("worker %d (start %d) failed: %v\n%s", w, next, err, s)
					}
					mu.Unlock()
					return
				}
				n, _ := strconv.Atoi(strings.TrimSpace(m))
				next = n
			}
		}(w)
	}
	wg.Wait()
	for w := 0; w < workers; w++ {
		f, err := os.Open(filepath.Join(tmp, fmt.Sprintf("w%d.jsonl", w)))
		if err != nil {
			continue
		}
		sc := bufio.NewScanner(f)
		sc.Buffer(make([]byte, 1<<20), 1<<28)
		for sc.Scan() {
			if bytes.HasPrefix(sc.Bytes(), []byte(`{"agg":true`)) {
				var a aggregate
				if err := json.Unmarshal(sc.Bytes(), &a); err == nil {
					aggs = append(aggs, a)
				}
				continue
			}
			var r result
			if err := json.Unmarshal(sc.Bytes(), &r); err == nil {
				all = append(all, r)
			}
		}
		f.Close()
	}
	sort.Slice(all, func(i, j int) bool { return all[i].Run < all[j].Run })
	return all, aggs, trouble
}

func workerCount() int {
	n := runtime.NumCPU()
	if n > 16 {
		n = 16
	}
	return envInt("VERIF_WORKERS", n)
}

func doCheck(prop, tier string) int {
	start := time.Now()
	pc, ok := props[prop]
	if !ok {
		die(2, "unknown property %q", prop)
	}
	if err := prepare(); err != nil {
		die(2, "prepare: %v", err)
	}
	bin, err := buildEngine()
	if err != nil {
		die(2, "%v", err)
	}
	buildS := time.Since(start).Seconds()
	seed := uint64(envInt("VERIF_SEED", 1))
	budgetS := pc.QuickS
	if tier == "thorough" {
		budgetS = pc.ThoroughS
	}
	budgetS = envInt("VERIF_BUDGET_S", budgetS)
	tmp, err := os.MkdirTemp(filepath.Join(buildDir()), "run-"+prop+"-")
	if err != nil {
		die(2, "%v", err)
	}
	defer os.RemoveAll(tmp)
	workers := workerCount()
	tRun := time.Now()
	results, aggs, trouble := runWorkers(bin, prop, tier, seed, time.Duration(budgetS)*time.Second, workers, pc.Chunk, tmp)
	fmt.Fprintf(os.Stderr, "verifctl: build %.0fs, search+collect %.0fs\n", buildS, time.Since(tRun).Seconds())
	if trouble != "" {
		fmt.Fprintln(os.Stderr, trouble)
		die(2, "harness trouble (not a property violation)")
	}
	if len(results) == 0 && len(aggs) == 0 {
		die(2, "no runs completed")
	}
	known := loadKnown()
	knownHit := map[string]int{}
	var fresh []result
	panics := 0
	for _, r := range results {
		if r.Panic != "" && r.Viol == nil {
			panics++
			if panics == 1 {
				fmt.Fprintf(os.Stderr, "run %d panicked (harness trouble):\n%s\n", r.Run, r.Panic)
			}
			continue
		}
		if r.Viol == nil {
			continue
		}
		// every violation of the run (primary + soft) is judged on its own;
		// the first one not covered by a known finding becomes the primary.
		all := append([]*violation{r.Viol}, r.Soft...)
		var unmatched *violation
		for _, v := range all {
			matched := false
			for _, k := range known {
				if k.matches(v) {
					knownHit[k.ID]++
					matched = true
					break
				}
			}
			if !matched && unmatched == nil {
				unmatched = v
			}
		}
		if unmatched != nil {
			r.Viol = unmatched
			fresh = append(fresh, r)
		}
	}
	if panics > 0 {
		die(2, "%d runs panicked inside the harness", panics)
	}
	// repeated occurrences that the workers only counted
	for _, a := range aggs {
		for _, va := range a.Viols {
			if va.Count <= 0 || va.Viol == nil {
				continue
			}
			for _, k := range known {
				if k.matches(va.Viol) {
					knownHit[k.ID] += va.Count
					break
				}
			}
		}
	}
	for _, k := range known {
		if k.Status == "known" && k.Property == prop {
			// printed for each listed finding, whether or not this batch reached it
			fmt.Printf("KNOWN-FINDING: property=%s %s [%s] (hit %d times in this run)\n", prop, k.What, k.ID, knownHit[k.ID])
		}
	}
	exit := 0
	nviol := 0
	if len(fresh) > 0 {
		// report the first (lowest run index) of each class, at most 3
		seen := map[string]bool{}
		for _, r := range fresh {
			if seen[r.Viol.Class] || len(seen) >= 3 {
				continue
			}
			seen[r.Viol.Class] = true
			nviol++
			path := reportViolation(bin, prop, tier, seed, r)
			fmt.Printf("VIOLATION property=%s replay=%s\n", prop, path)
			fmt.Printf("  class=%s signature=%v\n  %s\n", r.Viol.Class, r.Viol.Signature, r.Viol.Message)
		}
		exit = 1
	}
	writeEvidence(prop, tier, seed, pc, results, aggs, len(fresh), knownHit, time.Since(start).Seconds(), buildS, workers)
	return exit
}

func reportViolation(bin, prop, tier string, seed uint64, r result) string {
	dir := filepath.Join(verifDir, "replays")
	os.MkdirAll(dir, 0o755)
	path := filepath.Join(dir, fmt.Sprintf("%s-%d-%d.json", prop, seed, r.Run))
	rf := replayFile{Property: prop, Scenario: r.Scenario, BaseSeed: seed, Run: r.Run, Tier: tier, Cfg: r.Cfg, Tape: r.Tape,
		Class: r.Viol.Class, Signature: r.Viol.Signature, Message: r.Viol.Message, Hash: r.Hash, Trace: r.Trace}
	b, _ := json.MarshalIndent(&rf, "", " ")
	os.WriteFile(path, b, 0o644)
	// minimise
	cmd := engineCmd(bin, "-verif.prop", prop, "-verif.shrink", path, "-verif.budget", fmt.Sprint(time.Duration(envInt("VERIF_SHRINK_S", 60))*time.Second))
	out, _ := cmd.CombinedOutput()
	for _, l := range strings.Split(string(out), "\n") {
		if strings.HasPrefix(l, "SHRINK:") {
			fmt.Println("  " + l)
		}
	}
	if _, err := os.Stat(path + ".min"); err == nil {
		os.Rename(path+".min", path)
	}
	// replay the (minimised) file in fresh processes until it reproduced twice
	// (scenarios with simulated-clock jumps keep a residual nondeterminism -
	// timer ties, worker-pool dispatch, Go map iteration - see DESIGN.md 10.5)
	reproduced, tries := 0, 0
	for tries < 8 && reproduced < 2 {
		tries++
		cmd := engineCmd(bin, "-verif.prop", prop, "-verif.replay", path)
		out, _ := cmd.CombinedOutput()
		for _, l := range strings.Split(string(out), "\n") {
			if strings.HasPrefix(l, "REPLAY:") {
				fmt.Printf("  replay %d: %s\n", tries, strings.TrimPrefix(l, "REPLAY: "))
				if strings.Contains(l, "same_class=true") {
					reproduced++
				}
			}
		}
	}
	fmt.Printf("  replay reproduced the violation class in %d of %d fresh processes\n", reproduced, tries)
	return path
}

func doReplay(prop, path string) int {
	if err := prepare(); err != nil {
		die(2, "prepare: %v", err)
	}
	bin, err := buildEngine()
	if err != nil {
		die(2, "%v", err)
	}
	if !filepath.IsAbs(path) {
		if _, err := os.Stat(path); err != nil {
			path = filepath.Join(verifDir, path)
		} else {
			path, _ = filepath.Abs(path)
		}
	}
	cmd := engineCmd(bin, "-verif.prop", prop, "-verif.replay", path, "-verif.trace")
	out, err := cmd.CombinedOutput()
	viol := false
	for _, l := range strings.Split(string(out), "\n") {
		if strings.HasPrefix(l, "REPLAY:") || strings.HasPrefix(l, "VIOLATION ") {
			fmt.Println(l)
		}
		if strings.HasPrefix(l, "VIOLATION ") {
			viol = true
		}
	}
	if viol {
		return 1
	}
	if err != nil {
		fmt.Fprintln(os.Stderr, string(out))
		return 2
	}
	return 0
}

// doSelftest: determinism — the same run indices executed in several
// processes under different GOMAXPROCS must produce identical event-log hashes.
func doSelftest(prop string) int {
	if _, ok := props[prop]; !ok {
		die(2, "unknown property %q", prop)
	}
	if err := prepare(); err != nil {
		die(2, "prepare: %v", err)
	}
	bin, err := buildEngine()
	if err != nil {
		die(2, "%v", err)
	}
	tmp, _ := os.MkdirTemp(buildDir(), "selftest-")
	defer os.RemoveAll(tmp)
	nSeeds := envInt("VERIF_SELFTEST_RUNS", 30)
	procs := []int{1, 1, 1, 1, 1, 1}
	if os.Getenv("VERIF_SELFTEST_MIXED") != "" {
		procs = []int{1, 4, 16, 1, 4, 16} // informational: residual parallelism when GOMAXPROCS>1
	}
	hashes := make([]map[int]string, len(procs))
	var wg sync.WaitGroup
	for i, p := range procs {
		wg.Add(1)
		go func(i, p int) {
			defer wg.Done()
			out := filepath.Join(tmp, fmt.Sprintf("p%d.jsonl", i))
			cmd := engineCmd(bin, "-verif.prop", prop, "-verif.seed", "1", "-verif.start", "0", "-verif.stride", "1",
				"-verif.chunk", fmt.Sprint(nSeeds), "-verif.budget", "30m", "-verif.out", out)
			cmd.Env = append(cmd.Env, fmt.Sprintf("GOMAXPROCS=%d", p))
			if b, err := cmd.CombinedOutput(); err != nil {
				fmt.Fprintf(os.Stderr, "selftest process %d: %v\n%s\n", i, err, b)
			}
			hashes[i] = map[int]string{}
			f, err := os.Open(out)
			if err != nil {
				return
			}
			defer f.Close()
			sc := bufio.NewScanner(f)
			sc.Buffer(make([]byte, 1<<20), 1<<28)
			for sc.Scan() {
				var r result
				if json.Unmarshal(sc.Bytes(), &r) == nil {
					hashes[i][r.Run] = r.Hash + fmt.Sprintf("/%d", r.Steps)
				}
			}
		}(i, p)
	}
	wg.Wait()
	div := 0
	for run := 0; run < nSeeds; run++ {
		ref := hashes[0][run]
		for i := range procs {
			if hashes[i][run] != ref {
				div++
				fmt.Printf("DIVERGENCE run=%d proc=%d(GOMAXPROCS=%d): %s vs %s\n", run, i, procs[i], hashes[i][run], ref)
				break
			}
		}
	}
	fmt.Printf("selftest %s: %d runs x %d processes, %d divergent runs\n", prop, nSeeds, len(procs), div)
	if div > 0 {
		return 2
	}
	return 0
}
