package main

func init() {
	props["C18"] = propCfg{
		Level: "exploration", QuickS: 60, ThoroughS: 900, Chunk: 150,
		Rule: "Each run draws a configuration (cache on/off, transactional or plain disk, SSC tokens, 2-4 attacker tasks from {unwrap, third-party unwrap, rewrap, lookup, revoke-accessor}, or a sequential TTL-crossing history) and a schedule over storage operations and lock hand-offs from the tape.",
		LevelText:   "Seeded search over interleavings (storage-operation and lock-hand-off granularity) of concurrent unwrap / third-party unwrap / rewrap / lookup / revoke on one wrapping token, plus TTL-crossing histories on the simulated clock and sparse storage-error injection; oracle counts payload deliveries over the whole run and compares token-store and cubbyhole key sets with the baseline. Sampling: a clean batch is evidence, not proof.",
		LevelNote:   "Trusted: the simulator kernel (tape, scheduler, simdisk, simsync) and Go's synctest; the real Core, token store, cubbyhole, expiration manager and barrier run unmodified. Single node; physical writes atomic per key.",
		Technique:   "deterministic simulation: seeded scheduler over the real vault.Core in a synctest bubble, fault injection, exactly-once oracle",
		Assumptions: []string{"single node, no HA", "the physical backend is atomic per key and durable once acknowledged"},
		Real:        []string{"vault.Core request path", "token store", "cubbyhole", "response wrapping", "expiration manager", "barrier", "physical cache", "kv (v1) backend"},
		Stub:        commonStub,
	}
	props["C19"] = propCfg{
		Level: "exploration", QuickS: 60, ThoroughS: 900, Chunk: 150,
		Rule:        "Each run draws n in 1..4, optionally D sequential wasted uses (denied path / failing handler), then m > n-D concurrent requests from {read, write, denied path, failing handler, lease-generating read, lookup-self, child-token create} (or a sequential history whose n-th use leases a secret), cache on/off, transactional or plain disk, SSC on/off, and a schedule over storage operations and lock hand-offs.",
		LevelText:   "Seeded search over interleavings of m>n concurrent requests presenting one n-use token, at storage-operation and lock-hand-off granularity; oracle counts requests with an effect (backend handler reached or a non-permission-denied answer) against the remaining budget, then checks that the token is refused, its storage entries and leases are gone after the lazy revocations drained on the simulated clock, that no child token was created and (sequential variant) that the secret leased on the final use was withheld.",
		LevelNote:   "Trusted: simulator kernel and synctest. Denied requests are counted through a sequential prefix (their consumption is not observable at the API in the concurrent phase). Real Core, token store, expiration manager; recording backend is the workload.",
		Technique:   "deterministic simulation: seeded scheduler over the real vault.Core in a synctest bubble; counting oracle over the recorded backend history",
		Assumptions: []string{"single node, no HA", "the physical backend is atomic per key and durable once acknowledged"},
		Real:        []string{"vault.Core request path", "token store (UseToken, revocation)", "expiration manager", "ACL", "router", "barrier", "physical cache"},
		Stub:        append([]string{"secrets engine used as workload (recbackend: records handler calls, issues/revokes leased secrets)"}, commonStub...),
	}
}
