package main

func init() {
	props["C18"] = propCfg{
		Level: "exploration", QuickS: 60, ThoroughS: 900, Chunk: 150,
		Rule: "Each run draws a configuration (cache on/off, transactional or plain disk, SSC tokens, 2-4 attacker tasks from {unwrap, third-party unwrap, rewrap, lookup, revoke-accessor}, or a sequential TTL-crossing history) and a schedule over storage operations and lock hand-offs from the tape.",
		LevelText:   "Seeded search over interleavings (storage-operation and lock-hand-off granularity) of concurrent unwrap / third-party unwrap / rewrap / lookup / revoke on one wrapping token, plus TTL-crossing histories on the simulated clock and sparse storage-error injection; oracle counts payload deliveries over the whole run and compares token-store and cubbyhole key sets with the baseline. Sampling: a clean batch is evidence, not proof.",
		LevelNote:   "Trusted: the simulator kernel (tape, scheduler, simdisk, simsync) and Go's synctest; the real Core, token store, cubbyhole, expiration manager and barrier run unmodified. Single node; physical writes atomic per key.",
		Technique:   "deterministic simulation: seeded scheduler over the real vault.Core in a synctest bubble, fault injection, exactly-once oracle",
		Assumptions: []string{"single node, no HA", "the physical backend is atomic per key and durable once acknowledged"},
		Real:        []string{"vault.Core request path", "token store", "cubbyhole", "response wrapping", "expiration manager", "barrier", "physical cache", "kv (v1) backend"},
		Stub:        commonStub,
	}
	props["C19"] = propCfg{
		Level: "exploration", QuickS: 60, ThoroughS: 900, Chunk: 150,
		Rule:        "Each run draws n in 1..4, optionally D sequential wasted uses (denied path / failing handler), then m > n-D concurrent requests from {read, write, denied path, failing handler, lease-generating read, lookup-self, child-token create} (or a sequential history whose n-th use leases a secret), cache on/off, transactional or plain disk, SSC on/off, and a schedule over storage operations and lock hand-offs.",
		LevelText:   "Seeded search over interleavings of m>n concurrent requests presenting one n-use token, at storage-operation and lock-hand-off granularity; oracle counts requests with an effect (backend handler reached or a non-permission-denied answer) against the remaining budget, then checks that the token is refused, its storage entries and leases are gone after the lazy revocations drained on the simulated clock, that no child token was created and (sequential variant) that the secret leased on the final use was withheld.",
		LevelNote:   "Trusted: simulator kernel and synctest. Denied requests are counted through a sequential prefix (their consumption is not observable at the API in the concurrent phase). Real Core, token store, expiration manager; recording backend is the workload.",
		Technique:   "deterministic simulation: seeded scheduler over the real vault.Core in a synctest bubble; counting oracle over the recorded backend history",
		Assumptions: []string{"single node, no HA", "the physical backend is atomic per key and durable once acknowledged"},
		Real:        []string{"vault.Core request path", "token store (UseToken, revocation)", "expiration manager", "ACL", "router", "barrier", "physical cache"},
		Stub:        append([]string{"secrets engine used as workload (recbackend: records handler calls, issues/revokes leased secrets)"}, commonStub...),
	}
	props["C13"] = propCfg{
		Level: "exploration", QuickS: 45, ThoroughS: 600, Chunk: 20000,
		Rule:        "Each run draws a storage stack (bottom in {simdisk txn/plain, inmem txn/plain, file, Raft FSM(bbolt)}; optional key-encoding, cache of size 1..64, physical view, AES-GCM barrier, 0-2 nested storage views) and a history of 10-40 (thorough: up to 200) operations put/get/delete/list/list-page(after, limit) over nested keys with shared prefixes, also inside read-write and read-only transactions, plus CollectKeys/ClearView helpers, cache purges, close/reopen, and storage errors injected beneath the cache.",
		LevelText:   "Seeded operation histories on every combination of backend and wrapping layer, each return value compared with a sorted-map reference model (get = last put; list = immediate children with folders; page = slice of the sorted listing strictly after `after`, at most `limit`); foreign keys planted outside a view's prefix must stay invisible and untouched; after an injected storage error the failed operation may have failed but every later read must be right.",
		LevelNote:   "Trusted: the reference model (kvmodel.go, 80 lines) and the harness. Key domain: non-empty segments, no trailing slashes; list prefixes are empty or end in '/'. PostgreSQL backend not covered (no server in the sandbox). The RaftBackend (real single-node raft) variant is exercised under C08.",
		Technique:   "deterministic simulation (single-threaded storage stacks): seeded operation and fault sequences against a reference model, with shrinking",
		Assumptions: []string{"bbolt and the file system below the file backend are correct", "keys without empty segments or trailing slashes"},
		Real:        []string{"inmem backend", "file backend", "Raft FSM over bbolt", "physical cache", "key-encoding layer", "physical.View", "AES-GCM barrier", "barrier/logical storage views and their transactions", "logical.CollectKeys / ClearView helpers"},
		Stub:        []string{"simdisk as one of the bottoms (sorted map + log; it is itself checked against the model here)"},
	}
	props["C08"] = propCfg{
		Level: "exploration", QuickS: 60, ThoroughS: 900, Chunk: 60000,
		Rule:        "Each run draws a transactional stack (inmem or simdisk; optional key-encoding, cache, physical view, barrier, views; or the real single-node RaftBackend with a gated state machine) and an interleaving, at operation granularity, of up to 4 transactions (read-write and read-only; get/put/delete/list/list-page/commit/rollback) and plain writers over 6 keys in a two-level hierarchy, every written value unique.",
		LevelText:   "Seeded op-granularity interleavings of concurrent transactions and plain writers on every transactional stack; committed transactions are replayed in commit order on a serial key/value model and must have observed exactly the model's values and listings (a transaction without writes must match one model version between its begin and end); failed commits must be conflict-class and leave no trace; no-concurrency commits must succeed; own writes visible; read-only and finished transactions refuse use. For Raft the schedule also decides when the state machine applies each queued entry, so transactions begin while the FSM lags behind Raft's applied index.",
		LevelNote:   "Trusted: the serial model and the harness. PostgreSQL transactional backend not covered (no server in the sandbox). Raft runs use the real RaftBackend + hashicorp/raft single node with in-memory transport inside a synctest bubble; bbolt is trusted.",
		Technique:   "deterministic simulation: seeded interleavings of transactions (and Raft FSM apply pacing) checked against a serial reference model in commit order",
		Assumptions: []string{"list prefixes are empty or end in '/'", "bbolt is correct"},
		Real:        []string{"inmem transactional backend", "physical cache + cache transactions", "key-encoding layer", "TransactionalAESGCMBarrier", "transactional storage views", "RaftBackend, raft FSM, fsmTxnCommitIndexTracker, hashicorp/raft (single node)"},
		Stub:        []string{"simdisk as one of the bottoms", "Raft transport (in-memory), clock (synctest) for the Raft stacks"},
	}
	props["C09"] = propCfg{
		Level: "exploration", QuickS: 60, ThoroughS: 900, Chunk: 60,
		Rule:        "Each run first lets a real single-node leader execute a seeded concurrent workload of transactions and plain writes with scheduler-paced FSM applies (so entries carry stale transaction start indexes and varied LowestActiveIndex values), reads the command entries back from its log store, then replays them on 2-5 fresh state machines, each with its own partition into ApplyBatch calls (1..64 entries), restart positions and snapshot-install positions drawn from the tape.",
		LevelText:   "Seeded search over (log produced by the real leader code) x (batching, restart and snapshot-install positions per replica); after every replica has applied the log, data buckets must be byte-identical and every transaction's commit-or-conflict verdict must be the same on all replicas and equal to the verdict the leader returned to its client.",
		LevelNote:   "Trusted: harness, bbolt. Replicas are FSM instances driven directly (ApplyBatch / Close+NewFSM / BoltSnapshotStore sink + Restore), the way hashicorp/raft drives them; the consensus protocol itself is third-party and not under test. Values stay below the chunking threshold.",
		Technique:   "deterministic simulation: leader log captured from the real RaftBackend under a seeded scheduler, replayed on independent replicas under seeded batching / restart / snapshot faults; agreement oracle",
		Assumptions: []string{"hashicorp/raft delivers the same committed log to every replica", "bbolt is correct"},
		Real:        []string{"RaftBackend, RaftTransaction, applyLog", "FSM.ApplyBatch, fsmTxnCommitIndexTracker", "NewFSM reopen", "BoltSnapshotStore + FSM.Restore", "hashicorp/raft single node (leader side)"},
		Stub:        []string{"Raft transport (in-memory)", "clock (synctest)", "replica side of the Raft protocol (entries are handed to ApplyBatch by the harness)"},
	}
	props["C01"] = propCfg{
		Level: "fault_enumeration", QuickS: 60, ThoroughS: 600, Chunk: 400,
		Rule:        "Tamper runs (11 of 12): a barrier (root or namespace; transactional or plain disk; 0-3 rotations; v2 and legacy v1 records; value lengths 0..4096; writes through Put and through BeginTx().Put) is built, then for every data record every single-bit flip (exhaustive up to 256 bytes, strided above in the quick tier), every truncation length, extensions, term and version header rewrites and a transplant of every other record are applied to the simulated disk at rest and read back through Get / transactional Get; keyring and root-key records get the same treatment through Unseal (fresh instance), ReloadKeyring and ReloadRootKey. Monitor runs (1 of 12): a whole Core executes 8-20 API operations (kv v1/v2, policies, tokens, cubbyhole, wrapping, logins, leases, rotate, namespaces, identity, UI headers, sys/raw, seal/unseal) carrying unique canaries while every physical write is inspected. An evaluation is one corrupted read or one inspected write.",
		LevelText:   "Enumeration of the corruption space of each stored record inside seeded barrier configurations: the result of every corrupted read must be an error - never a panic, never another value (legacy records may relocate and must equal their source) - plus a dynamic monitor on every physical write of a simulated Core: no canary in raw/hex/base64 form, and every record either AEAD-opens under one of the core's barriers with its storage key as AAD or is on the fixed allow-list of bootstrap records.",
		LevelNote:   "Trusted: Go's AES-GCM; the harness. 'Every call site that writes to the physical backend directly' is decided dynamically for the executed paths (init, unseal, rotate, namespace creation, API workload), not by static analysis. Older-term records of the same key (replay) are outside the statement. ui.go's config_plaintext record (operator-set response headers, served while sealed) is allow-listed by exact key.",
		Technique:   "deterministic simulation: seeded barrier histories with exhaustive at-rest corruption of each record (fault enumeration) and a plaintext/direct-write monitor on the simulated disk of a whole Core",
		Assumptions: []string{"AES-GCM is a secure AEAD", "corruption happens at rest (not torn inside one Put)"},
		Real:        []string{"AESGCMBarrier / TransactionalAESGCMBarrier (encrypt, decrypt, Unseal, ReloadKeyring, ReloadRootKey, Rotate)", "keyring serialization", "vault.Core + kv, token store, cubbyhole, identity, namespaces, sys/raw (monitor runs)"},
		Stub:        []string{"disk (simdisk)", "clock (synctest) in monitor runs"},
	}
}
