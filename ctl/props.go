package main

func init() {
	props["C18"] = propCfg{
		Level: "exploration", QuickS: 60, ThoroughS: 900, Chunk: 150,
		Rule: "Each run draws a configuration (cache on/off, transactional or plain disk, SSC tokens, 2-4 attacker tasks from {unwrap, third-party unwrap, rewrap, lookup, revoke-accessor}, or a sequential TTL-crossing history) and a schedule over storage operations and lock hand-offs from the tape.",
		LevelText:   "Seeded search over interleavings (storage-operation and lock-hand-off granularity) of concurrent unwrap / third-party unwrap / rewrap / lookup / revoke on one wrapping token, plus TTL-crossing histories on the simulated clock and sparse storage-error injection; oracle counts payload deliveries over the whole run and compares token-store and cubbyhole key sets with the baseline. Sampling: a clean batch is evidence, not proof.",
		LevelNote:   "Trusted: the simulator kernel (tape, scheduler, simdisk, simsync) and Go's synctest; the real Core, token store, cubbyhole, expiration manager and barrier run unmodified. Single node; physical writes atomic per key.",
		Technique:   "deterministic simulation: seeded scheduler over the real vault.Core in a synctest bubble, fault injection, exactly-once oracle",
		Assumptions: []string{"single node, no HA", "the physical backend is atomic per key and durable once acknowledged"},
		Real:        []string{"vault.Core request path", "token store", "cubbyhole", "response wrapping", "expiration manager", "barrier", "physical cache", "kv (v1) backend"},
		Stub:        commonStub,
	}
}
