package main

// Overlay generation: everything the simulator injects into the openbao build
// is injected with `go build -overlay`; /repo itself is never edited.
//
//   - every non-test .go file under /repo/internal and /repo/sdk that imports
//     "sync" is compiled from a copy whose import spec points at the drop-in
//     package sdk/helper/simsync (scheduler-granted, durably blocking locks);
//   - /verif/sim/simsync     -> /repo/sdk/helper/simsync        (added package)
//   - /verif/sim/engine      -> /repo/internal/verifsim         (added package)
//   - /verif/sim/access/<p>  -> /repo/<p>/zz_verif_*.go         (added files)
//
// The overlay is regenerated from the *current* working tree on every check.

import (
	"bytes"
	"encoding/json"
	"fmt"
	"go/parser"
	"go/token"
	"io/fs"
	"os"
	"os/exec"
	"path/filepath"
	"sort"
	"strconv"
	"strings"
)

const simsyncPath = "github.com/openbao/openbao/sdk/v2/helper/simsync"

// repoDir is the tree the checks build: /repo, unless VERIF_REPO points at a
// snapshot (used for background exploration runs only; registered checks and
// committed evidence always come from /repo itself).
var repoDir = func() string {
	if d := os.Getenv("VERIF_REPO"); d != "" {
		return d
	}
	return "/repo"
}()

var verifDir = func() string {
	if d := os.Getenv("VERIF_DIR"); d != "" {
		return d
	}
	exe, err := os.Executable()
	if err == nil {
		// <verif>/build/bin/verifctl
		d := filepath.Dir(filepath.Dir(filepath.Dir(exe)))
		if _, err := os.Stat(filepath.Join(d, "sim")); err == nil {
			return d
		}
	}
	return "/verif"
}()

// buildDir holds everything generated (ignored by git). VERIF_BUILD moves it,
// so that a development build against a scratch tree (VERIF_REPO) does not
// disturb a check that is running against /repo.
func buildDir() string {
	if d := os.Getenv("VERIF_BUILD"); d != "" {
		return d
	}
	return filepath.Join(verifDir, "build")
}

func goEnv() []string {
	env := os.Environ()
	env = append(env, "GOFLAGS=-mod=mod", "GOPROXY=off", "GOSUMDB=off", "GOTOOLCHAIN=local", "GONOSUMDB=*", "GONOSUMCHECK=1")
	return env
}

func goBin() string {
	if p, err := exec.LookPath("go1.27.0"); err == nil {
		return p
	}
	return "go"
}

func writeIfChanged(path string, data []byte) error {
	if old, err := os.ReadFile(path); err == nil && bytes.Equal(old, data) {
		return nil
	}
	if err := os.MkdirAll(filepath.Dir(path), 0o755); err != nil {
		return err
	}
	return os.WriteFile(path, data, 0o644)
}

// rewriteSyncImports returns overlay entries for all files importing "sync".
func rewriteSyncImports(replace map[string]string) (int, error) {
	outRoot := filepath.Join(buildDir(), "rewritten")
	seen := map[string]bool{}
	n := 0
	for _, root := range []string{"internal", "sdk"} {
		err := filepath.WalkDir(filepath.Join(repoDir, root), func(p string, d fs.DirEntry, err error) error {
			if err != nil {
				return err
			}
			if d.IsDir() {
				switch d.Name() {
				case "testdata", "vendor", "node_modules", "simsync", "verifsim":
					return filepath.SkipDir
				}
				return nil
			}
			if !strings.HasSuffix(p, ".go") || strings.HasSuffix(p, "_test.go") {
				return nil
			}
			src, err := os.ReadFile(p)
			if err != nil {
				return err
			}
			if !bytes.Contains(src, []byte(`"sync"`)) {
				return nil
			}
			fset := token.NewFileSet()
			f, err := parser.ParseFile(fset, p, src, parser.ImportsOnly)
			if err != nil {
				return nil // let the compiler complain about it
			}
			type edit struct {
				from, to int
				text     string
			}
			var edits []edit
			for _, imp := range f.Imports {
				path, _ := strconv.Unquote(imp.Path.Value)
				if path != "sync" {
					continue
				}
				from := fset.Position(imp.Path.Pos()).Offset
				to := fset.Position(imp.Path.End()).Offset
				txt := strconv.Quote(simsyncPath)
				if imp.Name == nil {
					txt = "sync " + txt
				}
				edits = append(edits, edit{from, to, txt})
			}
			if len(edits) == 0 {
				return nil
			}
			sort.Slice(edits, func(i, j int) bool { return edits[i].from > edits[j].from })
			out := append([]byte(nil), src...)
			for _, e := range edits {
				out = append(out[:e.from], append([]byte(e.text), out[e.to:]...)...)
			}
			rel, _ := filepath.Rel(repoDir, p)
			dst := filepath.Join(outRoot, rel)
			if err := writeIfChanged(dst, out); err != nil {
				return err
			}
			seen[dst] = true
			replace[p] = dst
			n++
			return nil
		})
		if err != nil {
			return n, err
		}
	}
	// remove stale rewritten files
	filepath.WalkDir(outRoot, func(p string, d fs.DirEntry, err error) error {
		if err == nil && !d.IsDir() && !seen[p] {
			os.Remove(p)
		}
		return nil
	})
	return n, nil
}

func addDir(replace map[string]string, srcDir, dstDir string, rename func(string) string) error {
	ents, err := os.ReadDir(srcDir)
	if err != nil {
		return err
	}
	for _, e := range ents {
		if e.IsDir() || !strings.HasSuffix(e.Name(), ".go") {
			continue
		}
		name := e.Name()
		if rename != nil {
			name = rename(name)
		}
		replace[filepath.Join(dstDir, name)] = filepath.Join(srcDir, e.Name())
	}
	return nil
}

func goModCache() (string, error) {
	cmd := exec.Command(goBin(), "env", "GOMODCACHE")
	cmd.Env = goEnv()
	cmd.Dir = repoDir
	out, err := cmd.Output()
	return strings.TrimSpace(string(out)), err
}

func copyTree(src, dst string) error {
	return filepath.WalkDir(src, func(p string, d fs.DirEntry, err error) error {
		if err != nil {
			return err
		}
		rel, _ := filepath.Rel(src, p)
		t := filepath.Join(dst, rel)
		if d.IsDir() {
			return os.MkdirAll(t, 0o755)
		}
		b, err := os.ReadFile(p)
		if err != nil {
			return err
		}
		return writeIfChanged(t, b)
	})
}

// prepareThirdParty copies zcache out of the module cache and removes its
// finalizer (a finalizer runs outside every synctest bubble and sends on a
// bubble channel: fatal runtime error).
func prepareThirdParty() error {
	mc, err := goModCache()
	if err != nil {
		return err
	}
	src := filepath.Join(mc, "zgo.at/zcache/v2@v2.4.1")
	dst := filepath.Join(buildDir(), "third_party", "zcache")
	if _, err := os.Stat(filepath.Join(dst, "go.mod")); err != nil {
		if err := copyTree(src, dst); err != nil {
			return fmt.Errorf("copy zcache: %w", err)
		}
	}
	zf := filepath.Join(dst, "zcache.go")
	b, err := os.ReadFile(zf)
	if err != nil {
		return err
	}
	lines := strings.Split(string(b), "\n")
	for i, l := range lines {
		if strings.Contains(l, "runtime.SetFinalizer(") {
			lines[i] = "\t\t_ = runtime.SetFinalizer // verif: finalizer removed (runs outside the synctest bubble)"
		}
	}
	return writeIfChanged(zf, []byte(strings.Join(lines, "\n")))
}

func prepareModfile() error {
	b, err := os.ReadFile(filepath.Join(repoDir, "go.mod"))
	if err != nil {
		return err
	}
	var out []string
	for _, l := range strings.Split(string(b), "\n") {
		if strings.HasPrefix(l, "replace ") && strings.Contains(l, "=> ./") {
			l = strings.Replace(l, "=> ./", "=> "+repoDir+"/", 1)
		}
		out = append(out, l)
	}
	out = append(out,
		"",
		"replace zgo.at/zcache/v2 => "+filepath.Join(buildDir(), "third_party", "zcache"),
		"",
		"require (",
		"\tgithub.com/anishathalye/porcupine v1.3.0",
		"\tpgregory.net/rapid v1.3.0",
		")",
		"")
	if err := writeIfChanged(filepath.Join(buildDir(), "go.mod"), []byte(strings.Join(out, "\n"))); err != nil {
		return err
	}
	// go.sum: the repo's, plus whatever the go command appended last time for
	// the extra requirements (kept if the repo part is unchanged).
	sum, err := os.ReadFile(filepath.Join(repoDir, "go.sum"))
	if err != nil {
		return err
	}
	dst := filepath.Join(buildDir(), "go.sum")
	if old, err := os.ReadFile(dst); err == nil && bytes.HasPrefix(old, sum) {
		return nil
	}
	return os.WriteFile(dst, sum, 0o644)
}

// prepare regenerates build/overlay.json, build/go.mod, go.sum, third_party.
func prepare() error {
	if err := os.MkdirAll(filepath.Join(buildDir(), "bin"), 0o755); err != nil {
		return err
	}
	if err := prepareThirdParty(); err != nil {
		return err
	}
	if err := prepareModfile(); err != nil {
		return err
	}
	replace := map[string]string{}
	n, err := rewriteSyncImports(replace)
	if err != nil {
		return err
	}
	if err := rewriteFairshareTick(replace); err != nil {
		return err
	}
	sim := filepath.Join(verifDir, "sim")
	if err := addDir(replace, filepath.Join(sim, "simsync"), filepath.Join(repoDir, "sdk/helper/simsync"), nil); err != nil {
		return err
	}
	if err := addDir(replace, filepath.Join(sim, "engine"), filepath.Join(repoDir, "internal/verifsim"), nil); err != nil {
		return err
	}
	// accessor files: sim/access/<path with __ for />/x.go -> /repo/<path>/zz_verif_x.go
	acc := filepath.Join(sim, "access")
	ents, _ := os.ReadDir(acc)
	for _, e := range ents {
		if !e.IsDir() {
			continue
		}
		pkg := strings.ReplaceAll(e.Name(), "__", "/")
		if err := addDir(replace, filepath.Join(acc, e.Name()), filepath.Join(repoDir, pkg), func(s string) string { return "zz_verif_" + s }); err != nil {
			return err
		}
	}
	ov, _ := json.MarshalIndent(map[string]any{"Replace": replace}, "", " ")
	if err := writeIfChanged(filepath.Join(buildDir(), "overlay.json"), ov); err != nil {
		return err
	}
	fmt.Fprintf(os.Stderr, "verifctl: overlay: %d files with sync import rewritten, %d entries\n", n, len(replace))
	return nil
}

// buildEngine compiles the simulator engine (a `go test -c` binary of the
// overlay-only package internal/verifsim) from the current /repo tree.
func buildEngine() (string, error) {
	out := filepath.Join(buildDir(), "bin", "engine.test")
	cmd := exec.Command(goBin(), "test", "-c", "-vet=off", "-tags", "verif",
		"-overlay", filepath.Join(buildDir(), "overlay.json"),
		"-modfile", filepath.Join(buildDir(), "go.mod"),
		"-o", out, "./internal/verifsim/")
	cmd.Dir = repoDir
	cmd.Env = goEnv()
	var buf bytes.Buffer
	cmd.Stdout = &buf
	cmd.Stderr = &buf
	if err := cmd.Run(); err != nil {
		return "", fmt.Errorf("engine build failed: %v\n%s", err, buf.String())
	}
	return out, nil
}

// rewriteFairshareTick: the fairshare job manager (expiration workers) polls
// for assignable work with a 50 ms ticker. Under the simulated clock every
// tick is real CPU work, so a jump of 31 simulated days would cost 53 million
// wake-ups. In the simulation build the poll interval is 5 simulated seconds
// (the ticker is only the fallback for "a worker became free"; new work is
// signalled through a channel). If the literal is not found the file is left
// alone (long clock jumps then are merely slow).
func rewriteFairshareTick(replace map[string]string) error {
	src := filepath.Join(repoDir, "internal/helper/fairshare/jobmanager.go")
	b, err := os.ReadFile(src)
	if err != nil {
		return nil
	}
	const lit = "50 * time.Millisecond"
	if !bytes.Contains(b, []byte(lit)) {
		return nil
	}
	// start from the sync-rewritten copy if there is one
	if cur, ok := replace[src]; ok {
		if nb, err := os.ReadFile(cur); err == nil {
			b = nb
		}
	}
	out := bytes.ReplaceAll(b, []byte(lit), []byte("verifAssignTick"))
	out = append(out, []byte("\n// verif: poll interval of assignWork in the simulation build (see /verif/ctl/overlay.go)\nvar verifAssignTick = 5 * time.Second\n")...)
	dst := filepath.Join(buildDir(), "rewritten", "internal/helper/fairshare/jobmanager.go")
	if err := writeIfChanged(dst, out); err != nil {
		return err
	}
	replace[src] = dst
	return nil
}
