package main

import (
	"encoding/json"
	"os"
	"path/filepath"
	"sort"
)

type naEntry struct {
	ID     string `json:"property_id"`
	Reason string `json:"reason"`
}

var notApplicable = []naEntry{
	{"C03", "ACL evaluation is a pure function of (policies, namespace, path, operation, parameters); there is no schedule, clock, I/O or fault for a simulator to own (DESIGN.md section 4, C03)."},
	{"C07", "Token-creation privilege rules are a deterministic function of (parent entry, caller capability, request parameters, role); the one clause with time in it (lifetime bounds) is decided under C05 (DESIGN.md section 4, C07)."},
	{"C15", "Certificate issuance is a pure function of (role, request, issuer, now); serial uniqueness is probabilistic, not schedule-dependent (DESIGN.md section 4, C15)."},
	{"C20", "Shamir split/combine and GF(2^8) arithmetic are pure functions; information-theoretic independence is an algebraic statement no execution can witness. The threshold-of-distinct-shares clause is exercised inside C10 but that is not enough to claim C20 (DESIGN.md section 4, C20)."},
}

// pending lists properties whose check is designed (DESIGN.md) but not built
// yet; they are listed under not_applicable with that reason until then so
// that MANIFEST.json never claims a check that does not exist.
var pendingReason = "check designed in DESIGN.md section 4 but not built yet in this tree; not claimed until its engine scenario exists"

var allClaimed = []string{"C01", "C02", "C04", "C05", "C06", "C08", "C09", "C10", "C11", "C12", "C13", "C14", "C16", "C17", "C18", "C19"}

func writeManifest() {
	var checks []map[string]any
	ids := make([]string, 0, len(props))
	for id := range props {
		ids = append(ids, id)
	}
	sort.Strings(ids)
	for _, id := range ids {
		pc := props[id]
		checks = append(checks, map[string]any{
			"property_id":         id,
			"quick_cmd":           "./check " + id + " --tier quick",
			"thorough_cmd":        "./check " + id + " --tier thorough",
			"evidence_file":       "evidence/" + id + ".json",
			"replay_cmd_template": "./check " + id + " --replay {path}",
			"engine":              "verifsim",
			"level_claimed": map[string]any{
				"category":   pc.Level,
				"text":       pc.LevelText,
				"design_ref": "DESIGN.md section 4, " + id,
			},
			"level_note": pc.LevelNote,
			"technique":  pc.Technique,
		})
	}
	na := append([]naEntry(nil), notApplicable...)
	for _, id := range allClaimed {
		if _, ok := props[id]; !ok {
			na = append(na, naEntry{id, pendingReason})
		}
	}
	sort.Slice(na, func(i, j int) bool { return na[i].ID < na[j].ID })
	m := map[string]any{
		"version":   1,
		"setup_cmd": "./check setup",
		"hooks": map[string]any{
			"guard":            "verif-overlay",
			"enable":           "No hook is committed to /repo. Checks build /repo's current working tree with `go test -c -tags verif -overlay /verif/build/overlay.json -modfile /verif/build/go.mod`; the overlay (regenerated on every check by verifctl from the current tree) adds the packages sdk/helper/simsync and internal/verifsim plus accessor files, and compiles every non-test file of internal/** and sdk/** that imports \"sync\" from a copy whose import spec points at simsync (drop-in Mutex/RWMutex that park durably and are granted by the seeded scheduler). In the same way internal/helper/fairshare/jobmanager.go is compiled from a copy whose 50 ms poll literal is a 5 s variable (simulated-clock cost, DESIGN.md 10.2). zgo.at/zcache/v2 is built from a copy without its finalizer via a modfile replace. Nothing of this is committed to /repo; the only commits there are unguarded 'fix:' repairs of genuine defects (known_findings.json).",
			"baseline_off_cmd": "cd /repo && go build ./... && go test -vet=off -count=1 -timeout 25m ./...",
			"source_commits":   []string{},
			"add_only":         true,
		},
		"engines": []map[string]any{{
			"name":              "verifsim",
			"path":              "sim/engine (injected at /repo/internal/verifsim by overlay), sim/simsync, ctl/",
			"serves_properties": ids,
			"kind_free_text":    "deterministic simulation: whole vault.Core / storage stacks inside a testing/synctest bubble; one seeded choice tape decides scheduling (storage-operation and lock-hand-off granularity), clock advances, faults (storage errors, lost acks, crashes at write prefixes, corruption at rest, audit failures) and generated operations; failures are shrunk (delta debugging on the tape) and replayed in fresh processes",
		}},
		"checks":         checks,
		"not_applicable": na,
		"notes":          "Exit codes: 0 held (KNOWN-FINDING lines for entries of known_findings.json), 1 VIOLATION, 2 build/harness/watchdog trouble. VERIF_SEED, VERIF_TIER, VERIF_BUDGET_S, VERIF_WORKERS are honoured.",
	}
	b, _ := json.MarshalIndent(m, "", " ")
	if err := os.WriteFile(filepath.Join(verifDir, "MANIFEST.json"), append(b, '\n'), 0o644); err != nil {
		die(2, "%v", err)
	}
}
