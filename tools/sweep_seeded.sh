#!/bin/sh
# tools/sweep_seeded.sh [budget seconds] [dir ...]  - runs tools/try_seed.sh for every seeded/<id>-x/ and prints one verdict line each.
B="${1:-60}"; shift 2>/dev/null
cd /verif || exit 2
DIRS="$*"; [ -z "$DIRS" ] && DIRS="$(ls -d seeded/*/)"
mkdir -p build/sweep
for d in $DIRS; do
  n="$(basename "$d")"; id="$(jq -r .property "$d/meta.json")"
  if [ "$(jq -r '.superseded // empty' "$d/meta.json")" != "" ]; then echo "$n $id SUPERSEDED (see meta.json)"; continue; fi
  s=$(date +%s)
  sh tools/try_seed.sh "$d/patch.diff" "$id" "$B" > "build/sweep/$n.log" 2>&1
  e=$(date +%s)
  if grep -q "^VIOLATION property=$id" "build/sweep/$n.log"; then v="CAUGHT"; else v="MISSED"; fi
  cls="$(grep -o 'class=[a-z0-9-]*' "build/sweep/$n.log" | sort | uniq -c | sort -rn | head -3 | awk '{printf "%s(%s) ", $2, $1}')"
  echo "$n $id $v $((e-s))s $cls"
done
