#!/bin/sh
# tools/confirm_seed.sh <name>   e.g. C04-b ; worktree /tmp/seed/<name> prepared by a sub-agent
# Confirms independently: builds; demo FAILS with the change and PASSES without it;
# the existing tests of every touched package pass with the change. Stores the kept
# change under /verif/seeded/<name>/ (patch.diff, demo, meta.json, confirm.log).
set -u
N="$1"; W="/tmp/seed/$N"; O="/verif/seeded/$N"
export GOFLAGS=-mod=mod GOPROXY=off GOSUMDB=off
cd "$W" || exit 2
mkdir -p "$O"; L="$O/confirm.log"; : > "$L"
git diff > "$O/patch.diff"
[ -s "$O/patch.diff" ] || { echo "no source change" | tee -a "$L"; exit 1; }
if git diff --name-only | grep -q '_test\.go$'; then echo "REJECT: change edits existing test files" | tee -a "$L"; exit 1; fi
DEMOS="$(git ls-files --others --exclude-standard | grep '_test\.go$')"
[ -n "$DEMOS" ] || { echo "no demo test" | tee -a "$L"; exit 1; }
echo "changed: $(git diff --name-only | tr '\n' ' ')" >> "$L"; echo "demo: $DEMOS" >> "$L"
# module-relative package dirs
pkgs_of() { for f in "$@"; do d=$(dirname "$f"); case "$d" in sdk/*) echo "sdk|./${d#sdk/}";; api/*) echo "api|./${d#api/}";; *) echo ".|./$d";; esac; done | sort -u; }
runin() { m="$1"; shift; (cd "$W/$m" && "$@"); }
( go build ./... && cd sdk && go build ./... ) >> "$L" 2>&1 && echo "BUILD ok" >> "$L" || { echo "BUILD FAILED" | tee -a "$L"; exit 1; }
DP="$(pkgs_of $DEMOS)"
rundemo() { rc=0; for mp in $DP; do m=${mp%%|*}; p=${mp#*|}; runin "$m" go test -count=1 -vet=off -run 'TestSeedDemo_|TestSeed|TestDemo|Demo' "$p" >> "$L.demo" 2>&1 || rc=1; done; return $rc; }
: > "$L.demo"
if rundemo; then echo "DEMO with change: PASS (unexpected)" | tee -a "$L"; tail -5 "$L.demo" >> "$L"; exit 1; else echo "DEMO with change: FAIL (expected)" >> "$L"; grep -E "^(--- FAIL|FAIL|panic)" "$L.demo" | head -8 >> "$L"; fi
git apply -R "$O/patch.diff" || exit 2
: > "$L.demo"
if rundemo; then echo "DEMO without change: PASS (expected)" >> "$L"; R=0; else echo "DEMO without change: FAIL (unexpected)" | tee -a "$L"; tail -15 "$L.demo" >> "$L"; R=1; fi
git apply "$O/patch.diff" || exit 2
rm -f "$L.demo"
[ $R = 0 ] || exit 1
# existing tests of the touched packages, demo files moved aside
for f in $DEMOS; do mv "$f" "$f.aside"; done
CP="$(pkgs_of $(git diff --name-only))"
ER=0
for mp in $CP; do m=${mp%%|*}; p=${mp#*|}
  echo "EXISTING tests of $m $p with change:" >> "$L"
  runin "$m" go test -count=1 -vet=off -timeout 40m "$p" > "$L.t" 2>&1; rc=$?
  grep -E "^(ok|FAIL|--- FAIL|panic:)" "$L.t" | head -20 >> "$L"
  if [ $rc != 0 ]; then
    # only tests of the pinned suite (BASELINE stable_pass) count; others fail in this sandbox regardless
    bad=""
    for t in $(grep -E "^--- FAIL: " "$L.t" | awk '{print $3}'); do
      if jq -r '.stable_pass[]' /root/.vp/BASELINE.json | grep -q "::$t\$"; then bad="$bad $t"; else echo "  (ignored: $t is not in the pinned suite)" >> "$L"; fi
    done
    if grep -q "^panic:" "$L.t" || [ -n "$bad" ] || ! grep -q -E "^--- FAIL: " "$L.t"; then echo "  pinned tests failing:$bad" >> "$L"; ER=1; fi
  fi
done
rm -f "$L.t"
for f in $DEMOS; do mv "$f.aside" "$f"; done
for f in $DEMOS; do cp "$f" "$O/$(basename "$f").txt"; done
[ -f SEED_META.json ] && cp SEED_META.json "$O/meta.json"
if [ $ER = 0 ]; then echo "EXISTING tests with change: PASS" >> "$L"; echo "CONFIRMED $N"; else echo "EXISTING tests with change: some FAIL (see log; compare with unchanged tree)" | tee -a "$L"; echo "CHECK $N"; fi
