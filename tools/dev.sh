#!/bin/sh
# tools/dev.sh <check args...>  - development run against a scratch copy of /verif
# (/tmp/dev/verif) and a scratch worktree of /repo (/tmp/dev/repo), so that a
# check running in /verif against /repo is not disturbed. Nothing it writes is evidence.
# DEV_NOSYNC=1: use /tmp/dev/verif as it is (edit there while /verif is busy, copy back afterwards).
mkdir -p /tmp/dev/verif
[ -n "${DEV_NOSYNC:-}" ] || rsync -a --delete --exclude build --exclude 'build-*' --exclude .git /verif/ /tmp/dev/verif/
[ -d /tmp/dev/repo ] || git -C /repo worktree add --detach /tmp/dev/repo HEAD >/dev/null 2>&1
cd /tmp/dev/verif && VERIF_REPO="${VERIF_REPO:-/tmp/dev/repo}" exec ./check "$@"
