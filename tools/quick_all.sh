#!/bin/sh
# tools/quick_all.sh [tier] - runs every registered check on /repo (evidence refresh); prints one line per check
T="${1:-quick}"; cd /verif || exit 2
for id in $(jq -r '.checks[].property_id' MANIFEST.json); do
  s=$(date +%s); ./check $id --tier $T > build/quick_$id.log 2>&1; rc=$?; e=$(date +%s)
  echo "$id exit=$rc $((e-s))s $(grep -c '^VIOLATION' build/quick_$id.log) violations, $(grep -c '^KNOWN-FINDING' build/quick_$id.log) known; $(grep -E "$T:" build/quick_$id.log | cut -c1-120)"
done
