#!/bin/sh
# tools/dev_seed.sh <name> [budget] [property]  - try a seeded change in the scratch environment (tools/dev.sh)
N="$1"; B="${2:-60}"
P="/verif/seeded/$N/patch.diff"; [ -f "$P" ] || { git -C "/tmp/seed/$N" diff > /tmp/seed/$N.diff; P=/tmp/seed/$N.diff; }
ID="${3:-${N%%-*}}"
cd /tmp/dev/repo && git checkout -q -- . && git apply "$P" || { echo "patch does not apply"; exit 2; }
cd /verif && VERIF_BUDGET_S="$B" tools/dev.sh "$ID" 2>&1 | grep -E "^VIOLATION|^  class=|^KNOWN|quick:|thorough:|trouble|panicked" | cut -c1-500
cd /tmp/dev/repo && git checkout -q -- .
