#!/bin/sh
# tools_try_seed.sh <patch.diff> <property id> [budget seconds]
# Applies a seeded change to /repo, runs the property's check, reverts. Never commits.
set -u
P="$1"; ID="$2"; B="${3:-60}"
cd /repo || exit 2
if [ -n "$(git status --porcelain)" ]; then echo "/repo is dirty" >&2; exit 2; fi
git apply "$P" || { echo "patch does not apply" >&2; exit 2; }
cd /verif && VERIF_BUDGET_S="$B" ./check "$ID" 2>&1 | grep -v "^  replay [0-9]" | cut -c1-600 | tail -12
rc=$?
git -C /repo checkout -- . && git -C /repo clean -fdq -- . 2>/dev/null
exit 0
