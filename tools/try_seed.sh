#!/bin/sh
# tools/try_seed.sh <patch.diff> <property id> [budget seconds]
# Applies a seeded change to /repo, runs the property's check, reverts /repo.
# Evidence and replay files written by the run describe the CHANGED tree, so
# they are discarded afterwards (committed ones restored, new ones kept only
# under build/seed-replays/ for inspection). Never commits.
set -u
P="$(readlink -f "$1")"; ID="$2"; B="${3:-60}"
cd /repo || exit 2
if [ -n "$(git status --porcelain)" ]; then echo "/repo is dirty" >&2; exit 2; fi
cd /verif || exit 2
DIRTY="$(git status --porcelain evidence replays)"
cd /repo && git apply "$P" || { echo "patch does not apply" >&2; exit 2; }
# (violation lines first: a long stack trace in a message must not push them out of the tail)
cd /verif && VERIF_BUDGET_S="$B" ./check "$ID" > build/try_seed.out 2>&1
grep -E "^VIOLATION|^  class=|^KNOWN-FINDING|harness trouble" build/try_seed.out | cut -c1-300 | head -40
grep -v "^  replay [0-9]" build/try_seed.out | cut -c1-600 | tail -6
git -C /repo checkout -- . && git -C /repo clean -fdq -- . 2>/dev/null
if [ -z "$DIRTY" ]; then
  mkdir -p build/seed-replays
  for f in $(git status --porcelain replays | grep '^??' | awk '{print $2}'); do mv "$f" build/seed-replays/ 2>/dev/null; done
  git checkout -- evidence replays
fi
exit 0
