package verifsim

import (
	"bytes"
	"encoding/json"
	"flag"
	"fmt"
	"os"
	"runtime"
	"runtime/debug"
	"strings"
	"sync/atomic"
	"testing"
	"testing/synctest"
	"time"
)

var (
	fProp    = flag.String("verif.prop", "", "scenario / property id")
	fSeed    = flag.Uint64("verif.seed", 1, "base seed (VERIF_SEED)")
	fStart   = flag.Int("verif.start", 0, "first run index")
	fStride  = flag.Int("verif.stride", 1, "run index stride (number of workers)")
	fChunk   = flag.Int("verif.chunk", 100, "runs before this process exits")
	fBudget  = flag.Duration("verif.budget", 30*time.Second, "wall clock budget of this process")
	fOut     = flag.String("verif.out", "", "JSONL output file")
	fTier    = flag.String("verif.tier", "quick", "quick | thorough")
	fReplay  = flag.String("verif.replay", "", "replay file to re-execute")
	fShrink  = flag.String("verif.shrink", "", "replay file to minimise (writes <file>.min)")
	fTrace   = flag.Bool("verif.trace", false, "include decision trace in every result")
	fWatchdg = flag.Duration("verif.watchdog", 120*time.Second, "wall clock cap for one run")
)

// Result is one line of worker output.
type Result struct {
	Prop     string         `json:"prop"`
	Scenario string         `json:"scenario,omitempty"`
	Run      int            `json:"run"`
	Seed     uint64         `json:"seed"`
	Hash     string         `json:"hash"`
	Shape    string         `json:"shape"`
	Steps    int            `json:"steps"`
	SimMS    int64          `json:"sim_ms"`
	WallMS   int64          `json:"wall_ms"`
	Faults   map[string]int `json:"faults,omitempty"`
	Probes   map[string]int `json:"probes,omitempty"`
	Cfg      map[string]any `json:"cfg,omitempty"`
	Evals    int            `json:"evals,omitempty"` // sub-evaluations inside the run (enumerations)
	Trunc    bool           `json:"trunc,omitempty"`
	Stuck    string         `json:"stuck,omitempty"`
	Panic    string         `json:"panic,omitempty"`
	Viol     *Violation     `json:"violation,omitempty"`
	Soft     []*Violation   `json:"soft,omitempty"`
	Tape     []uint32       `json:"tape,omitempty"`
	Trace    []string       `json:"trace,omitempty"`
	Sample   any            `json:"sample,omitempty"`
	StateSig string         `json:"state_sig,omitempty"`
}

// Aggregate summarises the uneventful runs of one worker process.
type Aggregate struct {
	Agg    bool                      `json:"agg"`
	Prop   string                    `json:"prop"`
	Runs   int                       `json:"runs"`
	Evals  int                       `json:"evals"`
	Steps  int64                     `json:"steps"`
	SimMS  int64                     `json:"sim_ms"`
	Trunc  int                       `json:"trunc"`
	Faults map[string]int            `json:"faults"`
	Probes map[string]int            `json:"probes"`
	Cfg    map[string]map[string]int `json:"cfg"`
	Shapes []string                  `json:"shapes"` // shape/state signature of every non-trivial run
	States []string                  `json:"states"`
	MaxRun int                       `json:"max_run"`
	Viols  map[string]*ViolAgg       `json:"viols"`
}

// ViolAgg counts repeated occurrences of one (class, signature).
type ViolAgg struct {
	Viol  *Violation `json:"violation"`
	Count int        `json:"count"` // occurrences not reported as full lines
	seen  int
}

func (a *Aggregate) add(r *Result) {
	a.Runs++
	if r.Evals > 0 {
		a.Evals += r.Evals
	} else {
		a.Evals++
	}
	a.Steps += int64(r.Steps)
	a.SimMS += r.SimMS
	if r.Trunc {
		a.Trunc++
	}
	for k, v := range r.Faults {
		a.Faults[k] += v
	}
	for k, v := range r.Probes {
		a.Probes[k] += v
	}
	for k, v := range r.Cfg {
		if a.Cfg[k] == nil {
			a.Cfg[k] = map[string]int{}
		}
		sv := fmt.Sprint(v)
		if len(a.Cfg[k]) < 12 || a.Cfg[k][sv] > 0 {
			a.Cfg[k][sv]++
		}
	}
	if r.Steps > 0 || r.Evals > 0 {
		a.Shapes = append(a.Shapes, r.Shape[:16]+"/"+r.StateSig)
	}
	if r.StateSig != "" {
		a.States = append(a.States, r.StateSig)
	}
	if r.Run > a.MaxRun {
		a.MaxRun = r.Run
	}
}

// RunCtx is what a scenario gets.
type RunCtx struct {
	S    *Sim
	T    *testing.T
	Tier string
	Res  *Result
}

func (rc *RunCtx) Thorough() bool { return rc.Tier == "thorough" }

// Cfg records a swarm configuration choice.
func (rc *RunCtx) Cfg(k string, v any) {
	if rc.Res.Cfg == nil {
		rc.Res.Cfg = map[string]any{}
	}
	rc.Res.Cfg[k] = v
}

// Scenario is a workload + oracles for one property.
type Scenario struct {
	Prop string
	Name string
	// NoBubble scenarios do not need the synctest bubble (pure storage
	// stacks driven from one goroutine).
	NoBubble bool
	Run      func(rc *RunCtx)
}

var scenarios = map[string]*Scenario{}

func register(s *Scenario) { scenarios[s.Prop] = s }

func mixSeed(seed uint64, run int) uint64 {
	x := seed*0x9e3779b97f4a7c15 + uint64(run)*0xbf58476d1ce4e5b9 + 0x94d049bb133111eb
	x ^= x >> 30
	x *= 0xbf58476d1ce4e5b9
	x ^= x >> 27
	x *= 0x94d049bb133111eb
	x ^= x >> 31
	return x
}

var progress atomic.Int64

// runOne executes one run of a scenario on the given tape.
func runOne(t *testing.T, sc *Scenario, tape *Tape, tier string, run int, seed uint64) (res Result) {
	start := time.Now()
	res = Result{Prop: sc.Prop, Scenario: sc.Name, Run: run, Seed: seed}
	sim := NewSim(tape)
	sim.Prop = sc.Prop
	restore := SeedRandom(tape.SubSeed())
	defer restore()
	rc := &RunCtx{S: sim, T: t, Tier: tier, Res: &res}
	body := func(t *testing.T) {
		defer func() {
			if r := recover(); r != nil {
				res.Panic = fmt.Sprintf("%v\n%s", r, debug.Stack())
			}
		}()
		sim.Install()
		defer sim.Uninstall()
		rc.T = t
		sc.Run(rc)
	}
	func() {
		defer func() {
			if r := recover(); r != nil {
				msg := fmt.Sprint(r)
				if strings.Contains(msg, "blocked goroutines remain") || strings.Contains(msg, "deadlock:") {
					return // leaked system goroutines at the end of the bubble: expected
				}
				if res.Panic == "" {
					res.Panic = msg
				}
			}
		}()
		if sc.NoBubble {
			body(t)
		} else {
			synctest.Test(t, body)
		}
	}()
	res.Hash = sim.Hash()
	res.Shape = sim.Shape()
	res.Steps = sim.Steps
	if !sc.NoBubble {
		res.SimMS = int64(sim.simElapsed / time.Millisecond)
	}
	res.Faults = sim.Faults
	res.Probes = sim.Probes
	res.Trunc = sim.Trunc
	res.Stuck = sim.Stuck
	res.Viol = sim.Viol
	res.Soft = sim.Soft
	if res.Viol == nil && len(res.Soft) > 0 {
		res.Viol, res.Soft = res.Soft[0], res.Soft[1:]
	}
	if res.Viol != nil || *fTrace || run < 2 {
		res.Trace = sim.Trace
	}
	if res.Viol != nil || res.Panic != "" {
		res.Tape = tape.Used()
	} else if run >= 48 {
		res.Sample = nil // samples of the first runs are enough for the evidence file
	}
	res.WallMS = time.Since(start).Milliseconds()
	progress.Add(1)
	return res
}

type ReplayFile struct {
	Property  string         `json:"property"`
	Scenario  string         `json:"scenario"`
	BaseSeed  uint64         `json:"base_seed"`
	Run       int            `json:"run"`
	Tier      string         `json:"tier"`
	Cfg       map[string]any `json:"cfg,omitempty"`
	Tape      []uint32       `json:"tape"`
	Class     string         `json:"class"`
	Signature map[string]any `json:"signature,omitempty"`
	Message   string         `json:"message"`
	Hash      string         `json:"hash"`
	Trace     []string       `json:"trace,omitempty"`
	Minimised bool           `json:"minimised"`
}

// rssBytes reads the resident set size of this process (0 if unknown).
func rssBytes() int64 {
	_, rss := memSizes()
	return rss
}

// memSizes returns the virtual and resident size of this process. The virtual
// size matters too: every bolt file of the Raft backend is mapped with a
// 100 GB initial size, and mappings of torn-down runs whose goroutines are
// still parked stay around, so a long-lived worker runs out of the 128 TB
// address space ("cannot allocate memory") long before it runs out of RAM.
func memSizes() (vsz, rss int64) {
	b, err := os.ReadFile("/proc/self/statm")
	if err != nil {
		return 0, 0
	}
	var size, res int64
	fmt.Sscan(string(b), &size, &res)
	pg := int64(os.Getpagesize())
	return size * pg, res * pg
}

func workerShouldHandOver() bool {
	vsz, rss := memSizes()
	return rss > 3<<30 || vsz > 24<<40 || mapCount() > 20000
}

// mapCount is the number of memory mappings of this process (the kernel
// refuses new ones beyond vm.max_map_count, 65530 by default).
func mapCount() int {
	b, err := os.ReadFile("/proc/self/maps")
	if err != nil {
		return 0
	}
	return bytes.Count(b, []byte{'\n'})
}

func startWatchdog() {
	go func() {
		last := progress.Load()
		lastT := time.Now()
		for {
			time.Sleep(2 * time.Second)
			cur := progress.Load()
			if cur != last {
				last, lastT = cur, time.Now()
				continue
			}
			if time.Since(lastT) > *fWatchdg {
				buf := make([]byte, 1<<22)
				n := runtime.Stack(buf, true)
				fmt.Fprintf(os.Stderr, "VERIF-WATCHDOG: run exceeded %s of wall clock; goroutines:\n%s\n", *fWatchdg, buf[:n])
				os.Exit(3)
			}
		}
	}()
}

func TestEngine(t *testing.T) {
	if *fProp == "" {
		t.Skip("no -verif.prop")
	}
	sc := scenarios[*fProp]
	if sc == nil {
		t.Fatalf("unknown scenario %q", *fProp)
	}
	startWatchdog()
	if *fReplay != "" {
		doReplay(t, sc)
		return
	}
	if *fShrink != "" {
		doShrink(t, sc)
		return
	}
	var out *os.File
	if *fOut != "" {
		var err error
		out, err = os.OpenFile(*fOut, os.O_CREATE|os.O_APPEND|os.O_WRONLY, 0o644)
		if err != nil {
			t.Fatal(err)
		}
		defer out.Close()
	} else {
		out = os.Stdout
	}
	enc := json.NewEncoder(out)
	deadline := time.Now().Add(*fBudget)
	run := *fStart
	agg := &Aggregate{Agg: true, Prop: sc.Prop, Faults: map[string]int{}, Probes: map[string]int{}, Cfg: map[string]map[string]int{}, Viols: map[string]*ViolAgg{}}
	for n := 0; n < *fChunk && time.Now().Before(deadline); n++ {
		// a worker that has grown large (mmap'ed bolt files, leaked timers of
		// torn-down cores) hands over to a fresh process instead of running
		// into "cannot allocate memory"; the driver continues at VERIF-NEXT
		if n%32 == 31 && workerShouldHandOver() {
			break
		}
		seed := mixSeed(*fSeed, run)
		res := runOne(t, sc, NewTape(seed), *fTier, run, seed)
		// full lines only for what the driver must look at individually;
		// everything else is aggregated in-process
		full := res.Panic != "" || res.Stuck != "" || run < 48 || *fTrace
		if res.Viol != nil {
			// the first occurrences of each (class, signature) are reported
			// in full; further ones are only counted
			var vas []*ViolAgg
			for _, v := range append([]*Violation{res.Viol}, res.Soft...) {
				key := v.Class + "|" + fmt.Sprint(v.Signature)
				va := agg.Viols[key]
				if va == nil {
					va = &ViolAgg{Viol: v}
					agg.Viols[key] = va
				}
				va.seen++
				if va.seen <= 2 {
					full = true
				}
				vas = append(vas, va)
			}
			if !full {
				for _, va := range vas {
					va.Count++
				}
			}
		}
		if full {
			if err := enc.Encode(&res); err != nil {
				t.Fatal(err)
			}
		} else {
			agg.add(&res)
		}
		run += *fStride
	}
	if agg.Runs > 0 || len(agg.Viols) > 0 {
		if err := enc.Encode(agg); err != nil {
			t.Fatal(err)
		}
	}
	fmt.Fprintf(os.Stderr, "VERIF-NEXT %d\n", run)
}

func readReplay(t *testing.T, path string) *ReplayFile {
	b, err := os.ReadFile(path)
	if err != nil {
		t.Fatal(err)
	}
	var rf ReplayFile
	if err := json.Unmarshal(b, &rf); err != nil {
		t.Fatal(err)
	}
	return &rf
}

func doReplay(t *testing.T, sc *Scenario) {
	rf := readReplay(t, *fReplay)
	res := runOne(t, sc, ReplayTape(rf.Tape), rf.Tier, rf.Run, rf.BaseSeed)
	if *fTrace {
		for _, l := range res.Trace {
			fmt.Println("TRACE:", l)
		}
	}
	res.Trace = nil
	enc := json.NewEncoder(os.Stdout)
	enc.Encode(&res)
	if res.Viol == nil {
		fmt.Printf("REPLAY: no violation (expected class %s)\n", rf.Class)
		return
	}
	for i, v := range res.Soft {
		if v.Class == rf.Class && res.Viol.Class != rf.Class {
			res.Viol, res.Soft[i] = v, res.Viol
		}
	}
	same := res.Viol.Class == rf.Class
	fmt.Printf("REPLAY: violation class=%s hash=%s (recorded class=%s hash=%s) same_class=%v same_hash=%v\n",
		res.Viol.Class, res.Hash, rf.Class, rf.Hash, same, res.Hash == rf.Hash)
	fmt.Printf("VIOLATION property=%s replay=%s\n", rf.Property, *fReplay)
}

// doShrink minimises the tape of a replay file by delta debugging while the
// same violation class recurs. Bounded by attempts and wall clock.
func doShrink(t *testing.T, sc *Scenario) {
	rf := readReplay(t, *fShrink)
	deadline := time.Now().Add(*fBudget)
	attempts := 0
	try := func(tp []uint32) (*Result, bool) {
		if time.Now().After(deadline) || attempts > 3000 {
			return nil, false
		}
		attempts++
		res := runOne(t, sc, ReplayTape(tp), rf.Tier, rf.Run, rf.BaseSeed)
		// the same violation = same class and same signature (so that
		// minimisation cannot drift from a fresh violation to a known one)
		same := func(v *Violation) bool {
			return v != nil && v.Class == rf.Class && fmt.Sprint(v.Signature) == fmt.Sprint(map[string]any(rf.Signature))
		}
		if same(res.Viol) {
			return &res, true
		}
		for i, v := range res.Soft {
			if same(v) {
				res.Viol, res.Soft[i] = v, res.Viol
				return &res, true
			}
		}
		return nil, false
	}
	best := append([]uint32(nil), rf.Tape...)
	var bestRes *Result
	if r, ok := try(best); ok {
		bestRes = r
		best = r.Tape
	} else {
		fmt.Printf("SHRINK: original tape does not reproduce class %s\n", rf.Class)
		return
	}
	improved := true
	for improved && time.Now().Before(deadline) {
		improved = false
		// 1. delete chunks
		for size := len(best) / 2; size >= 1; size /= 2 {
			for i := 0; i+size <= len(best); {
				cand := append(append([]uint32(nil), best[:i]...), best[i+size:]...)
				if r, ok := try(cand); ok {
					best, bestRes, improved = r.Tape, r, true
				} else {
					i += size
				}
			}
		}
		// 2. zero spans
		for size := len(best) / 2; size >= 1; size /= 2 {
			for i := 0; i+size <= len(best); i += size {
				allZero := true
				for _, v := range best[i : i+size] {
					if v != 0 {
						allZero = false
					}
				}
				if allZero {
					continue
				}
				cand := append([]uint32(nil), best...)
				for j := i; j < i+size; j++ {
					cand[j] = 0
				}
				if r, ok := try(cand); ok {
					best, bestRes, improved = r.Tape, r, true
				}
			}
		}
		// 3. lower single values
		for i := 0; i < len(best); i++ {
			for best[i] > 0 {
				cand := append([]uint32(nil), best...)
				cand[i] = best[i] / 2
				if r, ok := try(cand); ok && len(r.Tape) <= len(best) {
					best, bestRes, improved = r.Tape, r, true
					if i >= len(best) {
						break
					}
				} else {
					break
				}
			}
			if i >= len(best) {
				break
			}
		}
	}
	// trim trailing zeros (reads past the end yield 0)
	for len(best) > 0 && best[len(best)-1] == 0 {
		best = best[:len(best)-1]
	}
	if r, ok := try(best); ok {
		bestRes = r
	} else if bestRes != nil {
		best = bestRes.Tape
	}
	out := *rf
	out.Tape = best
	out.Minimised = true
	out.Hash = bestRes.Hash
	out.Trace = bestRes.Trace
	out.Message = bestRes.Viol.Message
	out.Signature = bestRes.Viol.Signature
	out.Cfg = bestRes.Cfg
	b, _ := json.MarshalIndent(&out, "", " ")
	if err := os.WriteFile(*fShrink+".min", b, 0o644); err != nil {
		t.Fatal(err)
	}
	fmt.Printf("SHRINK: %d -> %d tape cells in %d attempts\n", len(rf.Tape), len(best), attempts)
}

// inBubble runs f inside a synctest bubble (for scenarios that are normally
// single-threaded but have a variant needing goroutines and fake time).
func inBubble(rc *RunCtx, f func()) {
	var pv any
	func() {
		defer func() {
			if r := recover(); r != nil {
				msg := fmt.Sprint(r)
				if strings.Contains(msg, "blocked goroutines remain") || strings.Contains(msg, "deadlock:") {
					return
				}
				pv = r
			}
		}()
		synctest.Test(rc.T, func(t *testing.T) {
			defer func() {
				if r := recover(); r != nil {
					pv = fmt.Sprintf("%v\n%s", r, debug.Stack())
				}
			}()
			start := time.Now()
			f()
			rc.Res.SimMS += time.Since(start).Milliseconds()
		})
	}()
	if pv != nil {
		panic(pv)
	}
}
