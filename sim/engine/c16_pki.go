package verifsim

import (
	"crypto"
	"crypto/ed25519"
	"crypto/x509"
	"encoding/base64"
	"encoding/pem"
	"fmt"
	"math/big"
	"strings"
	"time"

	"github.com/openbao/openbao/v2/internal/builtin/logical/pki"
	"github.com/openbao/openbao/sdk/v2/logical"
	"golang.org/x/crypto/ocsp"
)

// C16 — a revoked certificate is reported revoked everywhere until it expires.
//
// The real pki backend (EC P-256 / Ed25519 keys) with 1-2 issuers runs in the
// simulated Core. Histories of issue (short and long TTLs), revoke, revoke
// again, rotate CRL, tidy, config/crl (auto_rebuild on/off), clock jumps
// across certificate expiry, restarts, and a concurrent phase (revocations
// and CRL rotation interleaved at storage-operation granularity). In fault
// runs the k-th storage operation inside a revocation fails and the client
// RETRIES until the revocation reports success.
//
// Oracle: model Revoked = {serial -> time of the first successful revoke}.
// From then on, while the leaf is unexpired: cert/<serial> shows a revocation
// time; OCSP (request built and response parsed in the harness) says revoked;
// every complete CRL built afterwards for its issuer (parsed, signature
// verified under the issuer, CRL number never decreasing and increasing on
// rebuild) lists the serial - with auto_rebuild off already the CRL served
// right after the revoke call returned; a repeated revoke succeeds and leaves
// the revocation time and all other entries unchanged; the same after restart.

func init() {
	register(&Scenario{Prop: "C16", Name: "pki-revocation", Run: runC16})
}

type pkiIssuer struct {
	ref     string
	cert    *x509.Certificate
	lastNum *big.Int
	lastUpd time.Time
}

type pkiLeaf struct {
	serial   string
	cert     *x509.Certificate
	issuer   *pkiIssuer
	revoked  bool
	revTime  int64
	notAfter time.Time
}

func parseCertPEM(p string) *x509.Certificate {
	blk, _ := pem.Decode([]byte(p))
	if blk == nil {
		return nil
	}
	c, err := x509.ParseCertificate(blk.Bytes)
	if err != nil {
		return nil
	}
	return c
}

func runC16(rc *RunCtx) {
	s, tp := rc.S, rc.S.Tape
	opts := CoreOpts{DisableCache: tp.Pick(2) == 1, Plain: tp.Pick(2) == 1, Logical: map[string]logical.Factory{"pki": pki.Factory}}
	autoRebuild := tp.Pick(4) == 3
	faulty := tp.Pick(3) == 2
	nIssuers := 1 + tp.Pick(2)
	// (OCSP is unavailable for Ed25519 issuers: x/crypto/ocsp cannot sign with
	// them and the responder answers "internal error" - status API and CRL are
	// what is judged there; EC P-256 / P-384 issuers carry the OCSP clause)
	keyType := []string{"ec", "ec", "ed25519", "ec384"}[tp.Pick(4)]
	rc.Cfg("cache_off", opts.DisableCache)
	rc.Cfg("plain_disk", opts.Plain)
	rc.Cfg("auto_rebuild", autoRebuild)
	rc.Cfg("faulty", faulty)
	rc.Cfg("issuers", nIssuers)
	rc.Cfg("key_type", keyType)
	disk := NewDisk(s)
	h, err := BootCore(disk, opts)
	if err != nil {
		panic(err)
	}
	defer func() { h.Shutdown() }()
	must(h.Mount("pki", "pki", map[string]any{"config": map[string]any{"max_lease_ttl": "87600h"}}))
	kb := 256
	if keyType == "ed25519" {
		kb = 0
	}
	if keyType == "ec384" {
		keyType, kb = "ec", 384
	}
	var issuers []*pkiIssuer
	for i := 0; i < nIssuers; i++ {
		resp, err := h.RootWrite("pki/root/generate/internal", map[string]any{"common_name": fmt.Sprintf("root%d.example", i), "issuer_name": fmt.Sprintf("iss%d", i), "key_type": keyType, "key_bits": kb, "ttl": "87000h"})
		if err != nil || resp == nil {
			panic(fmt.Sprint("generate root: ", err))
		}
		c := parseCertPEM(fmt.Sprint(resp.Data["certificate"]))
		issuers = append(issuers, &pkiIssuer{ref: fmt.Sprintf("iss%d", i), cert: c})
	}
	if autoRebuild {
		_, err := h.RootWrite("pki/config/crl", map[string]any{"auto_rebuild": true, "auto_rebuild_grace_period": "12h", "expiry": "72h"})
		must(err)
	}
	_, err = h.RootWrite("pki/roles/r", map[string]any{"allow_any_name": true, "key_type": keyType, "key_bits": kb, "max_ttl": "2000h", "no_store": false})
	must(err)
	var leaves []*pkiLeaf
	var hist []string
	note := func(f string, a ...any) {
		l := fmt.Sprintf("[%s] ", time.Since(s.SimStart).Round(time.Second)) + fmt.Sprintf(f, a...)
		hist = append(hist, l)
		s.Note("%s", l)
	}
	retried := false
	viol := func(class string, sig map[string]any, f string, a ...any) {
		if sig == nil {
			sig = map[string]any{}
		}
		sig["auto_rebuild"] = autoRebuild
		sig["revocation_retried_after_storage_err"] = retried
		s.Violate("C16", class, sig, "%s; history: %v", fmt.Sprintf(f, a...), tail(hist, 20))
	}
	fetchCRL := func(hh *CoreH, is *pkiIssuer) *x509.RevocationList {
		resp, err := hh.Do("crl", Req{Op: logical.ReadOperation, Path: "pki/issuer/" + is.ref + "/crl/der", Token: hh.Root})
		if err != nil || resp == nil {
			return nil
		}
		raw, _ := resp.Data[logical.HTTPRawBody].([]byte)
		if len(raw) == 0 {
			return nil
		}
		rl, err := x509.ParseRevocationList(raw)
		if err != nil {
			viol("crl-unparseable", nil, "CRL of %s does not parse: %v", is.ref, err)
			return nil
		}
		if err := rl.CheckSignatureFrom(is.cert); err != nil {
			viol("crl-bad-signature", nil, "CRL of %s is not signed by its issuer: %v", is.ref, err)
			return nil
		}
		if is.lastNum != nil {
			switch rl.Number.Cmp(is.lastNum) {
			case -1:
				viol("crl-number-decreased", nil, "CRL number of %s went from %s to %s", is.ref, is.lastNum, rl.Number)
				return nil
			case 0:
				if !rl.ThisUpdate.Equal(is.lastUpd) {
					viol("crl-number-not-increased-on-rebuild", nil, "CRL of %s was rebuilt (thisUpdate %s -> %s) with the same number %s", is.ref, is.lastUpd, rl.ThisUpdate, rl.Number)
					return nil
				}
			}
		}
		is.lastNum, is.lastUpd = rl.Number, rl.ThisUpdate
		return rl
	}
	inCRL := func(rl *x509.RevocationList, l *pkiLeaf) bool {
		for _, e := range rl.RevokedCertificateEntries {
			if e.SerialNumber.Cmp(l.cert.SerialNumber) == 0 {
				return true
			}
		}
		return false
	}
	// a serial as clients spell it: as issued (lower case, colons), upper case,
	// hyphens, or both
	spell := func(serial string) string {
		switch tp.Pick(4) {
		case 1:
			return strings.ToUpper(serial)
		case 2:
			return strings.ReplaceAll(serial, ":", "-")
		case 3:
			return strings.ToUpper(strings.ReplaceAll(serial, ":", "-"))
		}
		return serial
	}
	// the three places where a revocation must be visible
	checkLeaf := func(hh *CoreH, l *pkiLeaf, phase string, crlMustList bool) bool {
		if !l.revoked || !time.Now().Before(l.notAfter) {
			return true
		}
		asked := spell(l.serial)
		resp, err := hh.Do("status", Req{Op: logical.ReadOperation, Path: "pki/cert/" + asked, Token: hh.Root})
		if err != nil || resp == nil || toInt64(resp.Data["revocation_time"]) == 0 {
			viol("revoked-cert-status-not-revoked", map[string]any{"phase": phase, "serial_spelled_as_issued": asked == l.serial}, "%s: cert/%s does not report a revocation time (%v, %v)", phase, asked, resp, err)
			return false
		}
		if rt := toInt64(resp.Data["revocation_time"]); l.revTime != 0 && rt != l.revTime {
			viol("revocation-time-changed", map[string]any{"phase": phase}, "%s: revocation time of %s changed from %d to %d", phase, l.serial, l.revTime, rt)
			return false
		} else {
			l.revTime = rt
		}
		// OCSP
		// (the CertID hash is the client's choice: SHA-1 is what most clients
		// send, the responder also accepts the SHA-2 family; drawn per query, so
		// one issuer is asked with different algorithms during one backend lifetime)
		ohash := []crypto.Hash{crypto.SHA1, crypto.SHA256, crypto.SHA1, crypto.SHA384, crypto.SHA512, crypto.SHA256}[tp.Pick(6)]
		if oreq, err := ocsp.CreateRequest(l.cert, l.issuer.cert, &ocsp.RequestOptions{Hash: ohash}); err == nil {
			resp, err := hh.Do("ocsp", Req{Op: logical.ReadOperation, Path: "pki/ocsp/" + base64.StdEncoding.EncodeToString(oreq)})
			if err == nil && resp != nil {
				if raw, ok := resp.Data[logical.HTTPRawBody].([]byte); ok && len(raw) > 0 {
					or, perr := ocsp.ParseResponse(raw, l.issuer.cert)
					if perr != nil {
						// x/crypto/ocsp cannot check an Ed25519 signature: parse without
						// the issuer and check the signature here
						if pub, isEd := l.issuer.cert.PublicKey.(ed25519.PublicKey); isEd {
							if or2, perr2 := ocsp.ParseResponse(raw, nil); perr2 == nil {
								if ed25519.Verify(pub, or2.TBSResponseData, or2.Signature) {
									or, perr = or2, nil
								} else {
									s.Probe("ocsp_ed25519_signature_by_other_key")
								}
							}
						}
					}
					if perr == nil && or.Status != ocsp.Revoked {
						viol("ocsp-not-revoked", map[string]any{"phase": phase}, "%s: OCSP reports status %d for revoked serial %s", phase, or.Status, l.serial)
						return false
					}
					if perr == nil {
						s.Probe("ocsp_checked")
					} else {
						s.Probe("ocsp_response_not_parsable")
						e := perr.Error()
						if _, isEd := l.issuer.cert.PublicKey.(ed25519.PublicKey); isEd && strings.Contains(e, "internal error") {
							s.Probe("ocsp_unavailable_for_ed25519_issuer")
						} else if s.Faults["err-na"] == 0 {
							// a responder that cannot answer for a revoked serial of an
							// EC issuer, with no storage fault in the run
							viol("ocsp-not-revoked", map[string]any{"phase": phase, "error_response": true}, "%s: OCSP answers %q for revoked serial %s of an EC issuer", phase, e, l.serial)
							return false
						}
					}
				}
			}
		}
		if crlMustList {
			rl := fetchCRL(hh, l.issuer)
			if s.Viol != nil {
				return false
			}
			if rl == nil {
				return true
			}
			if !inCRL(rl, l) {
				viol("revoked-serial-missing-from-crl", map[string]any{"phase": phase}, "%s: the complete CRL of %s (number %s, built %s) does not list revoked serial %s", phase, l.issuer.ref, rl.Number, rl.ThisUpdate.Format(time.RFC3339), l.serial)
				return false
			}
			s.Probe("crl_checked")
		}
		return true
	}
	checkAll := func(hh *CoreH, phase string, crlMustList bool) bool {
		for _, l := range leaves {
			if !checkLeaf(hh, l, phase, crlMustList) {
				return false
			}
		}
		return true
	}
	reqN := 0
	revoke := func(l *pkiLeaf, failAt int) bool {
		// through the scheduler so that a single storage op can fail; retried until success
		for try := 1; try <= 5; try++ {
			reqN++
			tag := fmt.Sprintf("rv%d", reqN)
			var resp *logical.Response
			var err error
			// the certificate is named by its serial in one of its spellings, or handed in as PEM
			rdata := map[string]any{"serial_number": spell(l.serial)}
			if tp.Pick(4) == 0 {
				rdata = map[string]any{"certificate": string(pem.EncodeToMemory(&pem.Block{Type: "CERTIFICATE", Bytes: l.cert.Raw}))}
			}
			s.SetControlled()
			t := s.Go(tag, func() {
				resp, err = h.Do(tag, Req{Op: logical.UpdateOperation, Path: "pki/revoke", Token: h.Root, Data: rdata})
			})
			if try == 1 {
				t.FailAt = failAt
			}
			s.Run()
			s.PassThrough()
			if err == nil && resp != nil && resp.IsError() {
				err = resp.Error()
			}
			if err == nil {
				note("revoke %s -> ok (try %d, fault at %q)", l.serial, try, t.FaultDesc)
				return true
			}
			if t.FaultDesc != "" {
				s.Faults["err-na"]++
				retried = true
			}
			note("revoke %s -> %v (try %d, fault at %q)", l.serial, err, try, t.FaultDesc)
		}
		return false
	}
	nOps := 6 + tp.Pick(10)
	if rc.Thorough() {
		nOps = 6 + tp.Pick(22)
	}
	replN := 0
	for i := 0; i < nOps && s.Viol == nil; i++ {
		op := tp.Pick(12)
		switch {
		case op <= 2 || len(leaves) == 0: // issue
			is := issuers[tp.Pick(len(issuers))]
			ttl := []string{"30m", "5h", "72h", "1000h"}[tp.Pick(4)]
			resp, err := h.RootWrite("pki/issuer/"+is.ref+"/issue/r", map[string]any{"common_name": fmt.Sprintf("leaf%d.example", len(leaves)), "ttl": ttl})
			if err != nil || resp == nil {
				note("issue -> %v", err)
				continue
			}
			c := parseCertPEM(fmt.Sprint(resp.Data["certificate"]))
			if c == nil {
				continue
			}
			l := &pkiLeaf{serial: fmt.Sprint(resp.Data["serial_number"]), cert: c, issuer: is, notAfter: c.NotAfter}
			leaves = append(leaves, l)
			note("issue %s from %s ttl=%s", l.serial, is.ref, ttl)
		case op <= 5: // revoke (maybe with a fault)
			l := leaves[tp.Pick(len(leaves))]
			k := 0
			if faulty && tp.Pick(2) == 0 {
				k = 1 + tp.Pick(14)
			}
			wasRevoked := l.revoked
			expired := !time.Now().Before(l.notAfter)
			if revoke(l, k) {
				if !expired {
					l.revoked = true
				}
				if wasRevoked {
					s.Probe("revoked_again")
				}
				// with auto-rebuild off the served CRL lists it right away
				if !checkAll(h, "after-revoke", !autoRebuild) {
					return
				}
			}
		case op == 6: // rotate the CRL: every complete CRL built now lists all revoked
			if _, err := h.RootRead("pki/crl/rotate"); err == nil {
				note("crl/rotate")
				if !checkAll(h, "after-rotate", true) {
					return
				}
			}
		case op == 7: // tidy
			_, err := h.RootWrite("pki/tidy", map[string]any{"tidy_revoked_certs": true, "tidy_cert_store": tp.Pick(2) == 0, "safety_buffer": "1s"})
			note("tidy -> %v", err == nil)
			s.SetControlled()
			s.Drain(2*time.Minute, 20*time.Second)
			s.PassThrough()
			if !checkAll(h, "after-tidy", false) {
				return
			}
		case op == 8: // clock
			d := []time.Duration{10 * time.Minute, 2 * time.Hour, 26 * time.Hour, 80 * time.Hour}[tp.Pick(4)]
			note("clock +%s", d)
			s.SetControlled()
			s.Drain(d, d/6+time.Minute)
			s.PassThrough()
			if !checkAll(h, "after-clock", false) {
				return
			}
		case op == 9: // restart
			nh, err := Reboot(disk.Fork(s), h)
			if err != nil {
				panic(err)
			}
			old := h
			h, disk = nh, nh.Disk
			old.Shutdown()
			note("restart")
			s.Faults["crash"]++
			if !checkAll(h, "after-restart", !autoRebuild) {
				return
			}
		case op == 10 && len(leaves) >= 2: // concurrent revocations + rotation
			a, b := leaves[tp.Pick(len(leaves))], leaves[tp.Pick(len(leaves))]
			note("concurrent revoke %s, revoke %s, rotate", a.serial, b.serial)
			oka, okb := false, false
			s.SwarmFreeze()
			s.SetControlled()
			s.Go(fmt.Sprintf("ca%d", i), func() {
				r, e := h.Do("ca", Req{Op: logical.UpdateOperation, Path: "pki/revoke", Token: h.Root, Data: map[string]any{"serial_number": a.serial}})
				oka = e == nil && (r == nil || !r.IsError())
			})
			s.Go(fmt.Sprintf("cb%d", i), func() {
				r, e := h.Do("cb", Req{Op: logical.UpdateOperation, Path: "pki/revoke", Token: h.Root, Data: map[string]any{"serial_number": b.serial}})
				okb = e == nil && (r == nil || !r.IsError())
			})
			// the third party is some other request that rebuilds the CRL - not
			// all of them are serialised with revocations the way rotate is
			third := tp.Pick(5)
			note("  third party: %s", []string{"crl/rotate", "config/crl rewrite", "tidy", "new issuer", "crl/rotate-delta"}[third])
			s.Go(fmt.Sprintf("cr%d", i), func() {
				switch third {
				case 0:
					h.Do("cr", Req{Op: logical.ReadOperation, Path: "pki/crl/rotate", Token: h.Root})
				case 1: // rewrite the CRL configuration with its current values (forces a rebuild when auto_rebuild is off)
					h.Do("cr", Req{Op: logical.UpdateOperation, Path: "pki/config/crl", Token: h.Root, Data: map[string]any{"auto_rebuild": autoRebuild, "expiry": "72h"}})
				case 2:
					h.Do("cr", Req{Op: logical.UpdateOperation, Path: "pki/tidy", Token: h.Root, Data: map[string]any{"tidy_revoked_certs": true, "tidy_cert_store": true, "safety_buffer": "1s"}})
				case 3:
					h.Do("cr", Req{Op: logical.UpdateOperation, Path: "pki/root/generate/internal", Token: h.Root, Data: map[string]any{"common_name": fmt.Sprintf("extra root %d", i), "key_type": "ec", "key_bits": 256, "issuer_name": fmt.Sprintf("extra%d", i), "ttl": "8760h"}})
				default:
					h.Do("cr", Req{Op: logical.ReadOperation, Path: "pki/crl/rotate-delta", Token: h.Root})
				}
			})
			s.Run()
			s.PassThrough()
			if oka && time.Now().Before(a.notAfter) {
				a.revoked = true
			}
			if okb && time.Now().Before(b.notAfter) {
				b.revoked = true
			}
			if !checkAll(h, "after-concurrent", !autoRebuild) {
				return
			}
		case op == 11: // issuer add/remove: replace an issuer by an equivalent one (same key and subject)
			oi := tp.Pick(len(issuers))
			oldIs := issuers[oi]
			variant := []string{"reissue-same-key", "delete-and-reimport", "add-equivalent-keep-old"}[tp.Pick(3)]
			info, err := h.RootRead("pki/issuer/" + oldIs.ref)
			if err != nil || info == nil {
				note("issuer read -> %v", err)
				continue
			}
			keyID := fmt.Sprint(info.Data["key_id"])
			certPEM := fmt.Sprint(info.Data["certificate"])
			replN++
			newRef := fmt.Sprintf("repl%d", replN)
			del := func() bool {
				r, e := h.Do("delissuer", Req{Op: logical.DeleteOperation, Path: "pki/issuer/" + oldIs.ref, Token: h.Root})
				if e != nil || (r != nil && r.IsError()) {
					note("delete issuer %s -> %v %v", oldIs.ref, e, r)
					return false
				}
				return true
			}
			var newCert *x509.Certificate
			switch variant {
			case "add-equivalent-keep-old":
				// a second issuer with the same key and subject joins the first one
				// (they share one CRL) and becomes the default; the CRL served for
				// the OLD issuer must keep its number sequence
				if cur, err := h.RootRead("pki/config/issuers"); err == nil && cur != nil {
					h.RootWrite("pki/config/issuers", map[string]any{"default": cur.Data["default"], "default_follows_latest_issuer": true})
				}
				resp, err := h.RootWrite("pki/issuers/generate/root/existing", map[string]any{"common_name": oldIs.cert.Subject.CommonName, "key_ref": keyID, "issuer_name": newRef, "ttl": "87000h"})
				if err != nil || resp == nil {
					note("add equivalent issuer -> %v", err)
					continue
				}
				nc := parseCertPEM(fmt.Sprint(resp.Data["certificate"]))
				if nc == nil {
					continue
				}
				issuers = append(issuers, &pkiIssuer{ref: newRef, cert: nc})
				note("issuer %s joined by equivalent %s (default follows latest)", oldIs.ref, newRef)
				s.Probe("equivalent_issuer_added")
				h.Do("rot", Req{Op: logical.ReadOperation, Path: "pki/crl/rotate", Token: h.Root})
				if !checkAll(h, "after-equivalent-issuer", !autoRebuild) {
					return
				}
				continue
			case "reissue-same-key":
				resp, err := h.RootWrite("pki/issuers/generate/root/existing", map[string]any{"common_name": oldIs.cert.Subject.CommonName, "key_ref": keyID, "issuer_name": newRef, "ttl": "87000h"})
				if err != nil || resp == nil {
					note("reissue root with existing key -> %v", err)
					continue
				}
				newCert = parseCertPEM(fmt.Sprint(resp.Data["certificate"]))
				if newCert == nil || !del() {
					continue
				}
			default:
				if !del() {
					continue
				}
				resp, err := h.RootWrite("pki/issuers/import/cert", map[string]any{"pem_bundle": certPEM})
				if err != nil || resp == nil {
					note("re-import issuer -> %v", err)
					continue
				}
				ids, _ := resp.Data["imported_issuers"].([]string)
				if len(ids) != 1 {
					note("re-import issuer -> imported %v", resp.Data["imported_issuers"])
					continue
				}
				if _, err := h.RootWrite("pki/issuer/"+ids[0], map[string]any{"issuer_name": newRef}); err != nil {
					note("name re-imported issuer -> %v", err)
					newRef = ids[0]
				}
				newCert = oldIs.cert
			}
			// the replacement verifies the old issuer's leaves, so from now
			// on it is "their issuer"
			newIs := &pkiIssuer{ref: newRef, cert: newCert}
			issuers[oi] = newIs
			for _, l := range leaves {
				if l.issuer == oldIs {
					l.issuer = newIs
				}
			}
			note("issuer %s replaced by %s (%s)", oldIs.ref, newRef, variant)
			s.Probe("issuer_replaced")
			// removing/adding an issuer rebuilds the CRLs: with auto-rebuild
			// off the CRL served now is such a rebuild
			if !checkAll(h, "after-issuer-replacement", !autoRebuild) {
				return
			}
		default: // read everything
			if !checkAll(h, "read", false) {
				return
			}
		}
	}
	if s.Viol == nil {
		if _, err := h.RootRead("pki/crl/rotate"); err == nil {
			checkAll(h, "final-rotate", true)
		}
	}
	nrev := 0
	for _, l := range leaves {
		if l.revoked {
			nrev++
		}
	}
	rc.Res.Sample = map[string]any{"history": tail(hist, 20), "leaves": len(leaves), "revoked": nrev}
	rc.Res.StateSig = fmt.Sprintf("l%d/r%d/i%d/%v", len(leaves), nrev, nIssuers, autoRebuild)
}

func toInt64(v any) int64 {
	switch x := v.(type) {
	case int64:
		return x
	case int:
		return int64(x)
	case float64:
		return int64(x)
	case uint64:
		return int64(x)
	}
	if s := fmt.Sprint(v); s != "" && s != "<nil>" {
		var n int64
		fmt.Sscan(strings.TrimSpace(s), &n)
		return n
	}
	return 0
}
