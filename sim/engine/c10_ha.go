package verifsim

import (
	"bytes"
	"context"
	"fmt"
	"sort"
	"time"

	log "github.com/hashicorp/go-hclog"
	"github.com/openbao/openbao/v2/internal/builtin/logical/kv"
	"github.com/openbao/openbao/v2/internal/helper/namespace"
	"github.com/openbao/openbao/v2/internal/vault"
	"github.com/openbao/openbao/v2/internal/vault/barrier"
	"github.com/openbao/openbao/sdk/v2/logical"
	"github.com/openbao/openbao/sdk/v2/physical"
	"github.com/openbao/openbao/sdk/v2/physical/inmem"
)

// C10 part (c): an active/standby pair. Two real Cores share one simulated
// disk and an in-memory HA lock service; leadership moves by step-down or by
// sealing the active node; the simulated clock drives the standby's periodic
// key-upgrade checks and the lock retries. Histories over {write, sys/rotate,
// sys/rotate/root, rekey to new (n,t), failover, restart of the standby,
// seal + unseal of every node}.
//
// Oracle: whoever is active reads back every entry written earlier; after a
// keyring rotation and the check interval the standby's keyring (terms, active
// term, root key) equals the active node's; after ANY history every node
// unseals with the currently valid shares - and only with those: shares
// retired by a completed rekey leave it sealed.

func runC10HA(rc *RunCtx) {
	rc.Cfg("mode", "ha")
	inBubble(rc, func() { c10HABody(rc) })
}

type haNode struct {
	name string
	h    *CoreH
}

func c10HABody(rc *RunCtx) {
	s, tp := rc.S, rc.S.Tape
	n := 1 + tp.Pick(3)
	t := 1
	if n > 1 {
		t = 2 + tp.Pick(n-1)
	}
	hab, err := inmem.NewInmemHA(nil, log.NewNullLogger())
	if err != nil {
		panic(err)
	}
	opts := CoreOpts{
		DisableCache: tp.Pick(2) == 1, Plain: tp.Pick(3) == 2, Shares: n, Thresh: t,
		Logical: map[string]logical.Factory{"kv": kv.Factory},
		HA:      hab.(physical.HABackend), Redirect: "http://node-a:8200",
	}
	rc.Cfg("shares", fmt.Sprintf("%d/%d", t, n))
	rc.Cfg("plain_disk", opts.Plain)
	rc.Cfg("cache_off", opts.DisableCache)
	disk := NewDisk(s)
	var hist []string
	viol := func(class string, sig map[string]any, f string, a ...any) {
		s.Violate("C10", class, sig, "%s; history: %v", fmt.Sprintf(f, a...), hist)
	}
	waitActive := func(x *CoreH) bool {
		for i := 0; i < 90; i++ {
			if !x.Core.Sealed() && !x.Core.Standby() {
				if lead, _, _, err := x.Core.Leader(); err == nil && lead {
					return true
				}
			}
			time.Sleep(time.Second)
		}
		return false
	}
	a, err := BootCore(disk, opts)
	if err != nil {
		panic(err)
	}
	nodes := []*haNode{{name: "a", h: a}}
	defer func() {
		for _, nd := range nodes {
			nd.h.Shutdown()
		}
	}()
	if !waitActive(a) {
		panic("first node never became active")
	}
	must(a.Mount("secret", "kv", nil))
	// second node: same disk, same lock service, unsealed with the same shares
	join := func(name string, keys [][]byte, thr int) (*CoreH, error) {
		o := opts
		o.Redirect = "http://node-" + name + ":8200"
		o.Thresh = thr
		c, err := vault.NewCore(coreConfig(disk, o))
		if err != nil {
			return nil, err
		}
		x := &CoreH{Core: c, Disk: disk, Keys: keys, Root: a.Root, Opts: o}
		if err := x.Unseal(); err != nil {
			x.Shutdown()
			return nil, err
		}
		return x, nil
	}
	b, err := join("b", a.Keys, t)
	if err != nil {
		panic(fmt.Sprint("standby join: ", err))
	}
	nodes = append(nodes, &haNode{name: "b", h: b})
	keys, thr := a.Keys, t
	var retired [][][]byte // share sets replaced by completed rekeys
	var retiredThr []int
	active := func() *haNode {
		for _, nd := range nodes {
			if !nd.h.Core.Sealed() && !nd.h.Core.Standby() {
				return nd
			}
		}
		return nil
	}
	// a lagging follower: a barrier over the same storage, unsealed now, that
	// walks the upgrade path only when told to (a standby whose process was
	// stalled). It polls right after every rotation - and, in step 7, a drawn
	// time later that is still inside the grace period of the rotation it has
	// not seen yet: an upgrade path lives for the grace period from ITS creation.
	follower := barrier.NewAESGCMBarrier(coreConfig(disk, opts).Physical, namespace.RootNamespace)
	{
		_, _, rk := barrier.VerifTerms(vault.VerifBarrier(a.Core))
		if err := follower.Unseal(namespace.RootContext(context.Background()), rk); err != nil {
			panic(fmt.Sprint("follower unseal: ", err))
		}
	}
	followerPoll := func() {
		for i := 0; i < 20; i++ {
			did, _, err := follower.CheckUpgrade(namespace.RootContext(context.Background()))
			if err != nil || !did {
				return
			}
		}
	}
	followerSame := func(where string, detail ...string) bool {
		act := active()
		if act == nil {
			return true
		}
		ab := vault.VerifBarrier(act.h.Core)
		at, aa, _ := barrier.VerifTerms(ab)
		sort.Slice(at, func(i, j int) bool { return at[i] < at[j] })
		bt, ba, _ := barrier.VerifTerms(follower)
		sort.Slice(bt, func(i, j int) bool { return bt[i] < bt[j] })
		if fmt.Sprint(at) != fmt.Sprint(bt) || aa != ba {
			viol("standby-keyring-differs", map[string]any{"level": "ha", "where": where}, "%s%v: a follower that polled the upgrade path inside the grace period has terms %v (active term %d), the active node %s has terms %v (active term %d)", where, detail, bt, ba, act.name, at, aa)
			return false
		}
		s.Probe("lagging_follower_keyring_equal")
		return true
	}
	data := map[string]string{}
	nw := 0
	write := func() bool {
		act := active()
		if act == nil {
			viol("no-active-node", nil, "no node is active although unsealed nodes exist")
			return false
		}
		nw++
		k, v := fmt.Sprintf("secret/k%d", nw), fmt.Sprintf("value-%d", nw)
		if _, err := act.h.RootWrite(k, map[string]any{"v": v}); err != nil {
			viol("valid-operation-refused", map[string]any{"op": "write", "level": "ha"}, "write on the active node %s failed with no fault injected: %v", act.name, err)
			return false
		}
		data[k] = v
		return true
	}
	readAll := func(x *haNode, where string) bool {
		for k, v := range data {
			resp, err := x.h.Do("verify", Req{Op: logical.ReadOperation, Path: k, Token: x.h.Root})
			if err != nil || resp == nil || resp.Data["v"] != v {
				viol("entry-lost-after-failover", map[string]any{"where": where}, "%s: node %s does not read back %q (%v, %v)", where, x.name, k, resp, err)
				return false
			}
		}
		return true
	}
	sameKeyring := func(where string) bool {
		act := active()
		if act == nil {
			return true
		}
		// (a standing-by node follows the encryption-key upgrade path; the root
		// key is reloaded when it takes over - so terms and term keys are
		// compared here, the root key is judged by what the node can unseal and
		// read after a failover)
		ab := vault.VerifBarrier(act.h.Core)
		at, aa, _ := barrier.VerifTerms(ab)
		sort.Slice(at, func(i, j int) bool { return at[i] < at[j] })
		for _, nd := range nodes {
			if nd == act || nd.h.Core.Sealed() {
				continue
			}
			sb := vault.VerifBarrier(nd.h.Core)
			bt, ba, _ := barrier.VerifTerms(sb)
			sort.Slice(bt, func(i, j int) bool { return bt[i] < bt[j] })
			same := fmt.Sprint(at) == fmt.Sprint(bt) && aa == ba
			for _, term := range at {
				if same && !bytes.Equal(barrier.VerifTermKey(ab, term), barrier.VerifTermKey(sb, term)) {
					same = false
				}
			}
			if !same {
				viol("standby-keyring-differs", map[string]any{"level": "ha", "where": where}, "%s: standby %s has terms %v (active term %d), the active node %s has terms %v (active term %d), or a term key differs", where, nd.name, bt, ba, act.name, at, aa)
				return false
			}
			s.Probe("standby_keyring_equal")
		}
		return true
	}
	for i := 0; i < 2; i++ {
		if !write() {
			return
		}
	}
	steps := 3 + tp.Pick(5)
	for i := 0; i < steps && s.Viol == nil; i++ {
		act := active()
		if act == nil {
			viol("no-active-node", nil, "no node is active")
			return
		}
		switch tp.Pick(8) {
		case 0:
			hist = append(hist, "write")
			if !write() {
				return
			}
		case 1: // keyring rotation, then the standby follows the upgrade path
			hist = append(hist, "sys/rotate@"+act.name)
			if _, err := act.h.RootWrite("sys/rotate", nil); err != nil {
				viol("valid-operation-refused", map[string]any{"op": "rotate", "level": "ha"}, "sys/rotate on %s failed: %v", act.name, err)
				return
			}
			if !write() {
				return
			}
			followerPoll()
			time.Sleep(25 * time.Second) // > keyRotateCheckInterval
			if !sameKeyring("after sys/rotate + check interval") || !followerSame("right after sys/rotate") {
				return
			}
		case 2: // root key rotation
			hist = append(hist, "sys/rotate/root@"+act.name)
			if _, err := act.h.RootWrite("sys/rotate/root", nil); err != nil {
				viol("valid-operation-refused", map[string]any{"op": "rotate-root", "level": "ha"}, "sys/rotate/root on %s failed: %v", act.name, err)
				return
			}
			if !write() {
				return
			}
			time.Sleep(25 * time.Second)
			if !sameKeyring("after sys/rotate/root + check interval") {
				return
			}
		case 3: // rekey on the active node
			n2 := 1 + tp.Pick(3)
			t2 := 1
			if n2 > 1 {
				t2 = 2 + tp.Pick(n2-1)
			}
			hist = append(hist, fmt.Sprintf("rekey %d/%d->%d/%d@%s", thr, len(keys), t2, n2, act.name))
			if cerr := act.h.Core.RekeyInit(&vault.SealConfig{SecretShares: n2, SecretThreshold: t2}, false); cerr != nil {
				viol("valid-operation-refused", map[string]any{"op": "rekey-init", "level": "ha"}, "rekey init on %s failed: %v", act.name, cerr)
				return
			}
			conf, cerr := act.h.Core.RekeyConfig(false)
			if cerr != nil || conf == nil {
				viol("valid-operation-refused", map[string]any{"op": "rekey-config", "level": "ha"}, "rekey config unavailable: %v", cerr)
				return
			}
			ctx := namespace.RootContext(context.Background())
			var res *vault.RekeyResult
			for j := 0; j < thr; j++ {
				r, cerr := act.h.Core.RekeyUpdate(ctx, append([]byte{}, keys[j]...), conf.Nonce, false)
				if cerr != nil {
					viol("valid-operation-refused", map[string]any{"op": "rekey-update", "level": "ha"}, "rekey update with valid share %d/%d on %s failed: %v", j+1, thr, act.name, cerr)
					return
				}
				res = r
			}
			if res == nil || len(res.SecretShares) != n2 {
				viol("rekey-returned-no-shares", nil, "rekey finished without returning %d shares", n2)
				return
			}
			retired, retiredThr = append(retired, keys), append(retiredThr, thr)
			keys, thr = res.SecretShares, t2
			for _, nd := range nodes {
				nd.h.Keys, nd.h.Opts.Thresh, nd.h.Opts.Shares = keys, thr, n2
			}
		case 4: // failover
			how := tp.Pick(2)
			hist = append(hist, fmt.Sprintf("failover from %s (%s)", act.name, []string{"step-down", "seal"}[how]))
			if how == 0 {
				// (the HTTP layer calls Core.StepDown directly; it is not a logical path)
				sdReq := &logical.Request{ID: "stepdown", Operation: logical.UpdateOperation, Path: "sys/step-down", ClientToken: act.h.Root, Connection: &logical.Connection{RemoteAddr: "127.0.0.1"}}
				if err := act.h.Core.StepDown(namespace.RootContext(context.Background()), sdReq); err != nil {
					viol("valid-operation-refused", map[string]any{"op": "step-down", "level": "ha"}, "step-down on %s failed: %v", act.name, err)
					return
				}
			} else if err := act.h.Core.Seal(act.h.Root); err != nil {
				viol("valid-operation-refused", map[string]any{"op": "seal", "level": "ha"}, "seal of %s failed: %v", act.name, err)
				return
			}
			s.Faults["failover"]++
			var next *haNode
			for w := 0; w < 60 && next == nil; w++ {
				time.Sleep(time.Second)
				if x := active(); x != nil && x != act {
					next = x
				}
			}
			if next == nil {
				// nobody else could take over (e.g. the other node is sealed): the old one may come back
				time.Sleep(30 * time.Second)
				next = active()
			}
			if next == nil {
				if how == 1 {
					// the only unsealed node was sealed: bring it back
					if err := act.h.Unseal(); err != nil {
						viol("unsealable-with-current-shares", map[string]any{"level": "ha", "after": "seal"}, "node %s does not unseal with the current shares: %v", act.name, err)
						return
					}
					if !waitActive(act.h) {
						viol("no-active-node", nil, "node %s never became active again", act.name)
						return
					}
					next = act
				} else {
					viol("no-active-node", nil, "no node became active within 90 s of a step-down")
					return
				}
			}
			if !readAll(next, "after failover") || !write() {
				return
			}
			if how == 1 && next != act {
				// the sealed node rejoins with the CURRENT shares
				if err := act.h.Unseal(); err != nil {
					viol("unsealable-with-current-shares", map[string]any{"level": "ha", "after": "failover"}, "node %s does not unseal with the current shares after it was sealed: %v", act.name, err)
					return
				}
			}
		case 5: // the standby is restarted
			var sb *haNode
			for _, nd := range nodes {
				if nd != act {
					sb = nd
				}
			}
			if sb == nil {
				continue
			}
			hist = append(hist, "restart "+sb.name)
			sb.h.Shutdown()
			x, err := join(sb.name, keys, thr)
			if err != nil {
				viol("unsealable-with-current-shares", map[string]any{"level": "ha", "after": "restart"}, "restarted node %s does not unseal with the current shares: %v", sb.name, err)
				return
			}
			sb.h = x
			s.Faults["crash"]++
		case 7: // a rotation by a freshly elected leader, seen by the lagging follower late but inside the grace period
			var other *haNode
			for _, nd := range nodes {
				if nd != act && !nd.h.Core.Sealed() {
					other = nd
				}
			}
			if other == nil {
				continue
			}
			if tp.Pick(2) == 0 { // the old leader leaves an upgrade path of its own behind
				if _, err := act.h.RootWrite("sys/rotate", nil); err != nil {
					continue
				}
				followerPoll()
				time.Sleep(time.Duration(tp.Range(1, 30)) * time.Second)
			}
			sdReq := &logical.Request{ID: "stepdown", Operation: logical.UpdateOperation, Path: "sys/step-down", ClientToken: act.h.Root, Connection: &logical.Connection{RemoteAddr: "127.0.0.1"}}
			if err := act.h.Core.StepDown(namespace.RootContext(context.Background()), sdReq); err != nil {
				continue
			}
			s.Faults["failover"]++
			var next *haNode
			for w := 0; w < 60 && next == nil; w++ {
				time.Sleep(time.Second)
				if x := active(); x != nil && x != act {
					next = x
				}
			}
			if next == nil {
				time.Sleep(30 * time.Second)
				if next = active(); next == nil {
					viol("no-active-node", nil, "no node became active within 90 s of a step-down")
					return
				}
			}
			d1 := time.Duration(tp.Range(2, 100)) * time.Second
			time.Sleep(d1)
			if _, err := next.h.RootWrite("sys/rotate", nil); err != nil {
				viol("valid-operation-refused", map[string]any{"op": "rotate", "level": "ha"}, "sys/rotate on %s failed: %v", next.name, err)
				return
			}
			d2 := time.Duration(tp.Range(20, 105)) * time.Second // the grace period is 2 minutes
			time.Sleep(d2)
			hist = append(hist, fmt.Sprintf("step-down %s -> %s, +%s sys/rotate@%s, +%s the lagging follower polls", act.name, next.name, d1, next.name, d2))
			followerPoll()
			if !followerSame("late poll inside the grace period", fmt.Sprintf("%s after a rotation made %s after %s took over", d2, d1, next.name)) {
				return
			}
			s.Probe("late_poll_inside_grace_period")
			if !write() {
				return
			}
		case 6: // every node sealed, then unsealed again: retired shares must not work, current ones must
			hist = append(hist, "seal all + unseal")
			for _, nd := range nodes {
				if !nd.h.Core.Sealed() {
					if err := nd.h.Core.Seal(nd.h.Root); err != nil {
						// a standby refuses a token-authenticated seal: shut it down instead
						nd.h.Shutdown()
						x, err := vault.NewCore(coreConfig(disk, nd.h.Opts))
						if err != nil {
							panic(err)
						}
						nd.h = &CoreH{Core: x, Disk: disk, Keys: keys, Root: a.Root, Opts: nd.h.Opts}
					}
				}
			}
			time.Sleep(2 * time.Second)
			for ri, old := range retired {
				nd := nodes[tp.Pick(len(nodes))]
				for j := 0; j < retiredThr[ri] && j < len(old); j++ {
					nd.h.Core.Unseal(append([]byte{}, old[j]...))
				}
				if !nd.h.Core.Sealed() {
					viol("unsealed-with-retired-shares", map[string]any{"level": "ha"}, "node %s unsealed with the shares that rekey #%d replaced", nd.name, ri+1)
					return
				}
				nd.h.Core.ResetUnsealProcess()
			}
			for _, nd := range nodes {
				nd.h.Keys, nd.h.Opts.Thresh = keys, thr
				if err := nd.h.Unseal(); err != nil {
					viol("unsealable-with-current-shares", map[string]any{"level": "ha", "after": "seal-all"}, "node %s does not unseal with the current shares: %v", nd.name, err)
					return
				}
			}
			var act2 *haNode
			for w := 0; w < 60 && act2 == nil; w++ {
				time.Sleep(time.Second)
				act2 = active()
			}
			if act2 == nil {
				viol("no-active-node", nil, "no node became active after all were unsealed")
				return
			}
			if !readAll(act2, "after seal-all + unseal") {
				return
			}
		}
	}
	if s.Viol != nil {
		return
	}
	// epilogue: a cold start of the whole cluster with the current shares
	hist = append(hist, "cold start")
	for _, nd := range nodes {
		nd.h.Shutdown()
	}
	o := opts
	o.Thresh, o.Shares = thr, len(keys)
	c, err := vault.NewCore(coreConfig(disk.Fork(s), o))
	if err != nil {
		panic(err)
	}
	x := &CoreH{Core: c, Disk: disk, Keys: keys, Root: a.Root, Opts: o}
	nodes = append(nodes, &haNode{name: "cold", h: x})
	if err := x.Unseal(); err != nil {
		viol("unsealable-with-current-shares", map[string]any{"level": "ha", "after": "cold-start"}, "a cold-started node does not unseal with the current shares: %v", err)
		return
	}
	if !waitActive(x) {
		viol("no-active-node", nil, "the cold-started node never became active")
		return
	}
	readAll(nodes[len(nodes)-1], "after cold start")
	rc.Res.Sample = map[string]any{"mode": "ha", "history": hist}
	rc.Res.StateSig = fmt.Sprintf("ha/%v", hist)
	s.Steps += len(hist)
}
