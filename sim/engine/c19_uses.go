package verifsim

import (
	"fmt"
	"strings"
	"time"

	"github.com/openbao/openbao/sdk/v2/logical"
)

// C19 — a use-limited token authorises at most its number of uses.
//
// Workload: token with num_uses = n (1..4). D sequential "wasted" uses
// (denied path / failing handler) first, then m > n - D concurrent requests
// (allowed reads and writes on the recording backend, denied paths, failing
// handlers, lease-generating reads, lookup-self, child-token creation),
// interleaved at storage-operation and lock-hand-off granularity.
//
// Oracle (API level): E = number of concurrent requests that had an effect
// (reached a backend handler, or returned something other than "permission
// denied") must satisfy E <= n - D; afterwards the token is refused; at
// quiescence its storage entries are gone and every secret leased under it
// was revoked at the backend; child creation never succeeds; in the
// sequential variant the secret leased on the final use is withheld.

func init() {
	register(&Scenario{Prop: "C19", Name: "use-limit", Run: runC19})
}

const c19Policy = `
path "rec/data/*" { capabilities = ["create","read","update","delete","list"] }
path "rec/creds/*" { capabilities = ["read","update"] }
path "rec/fail/*" { capabilities = ["read","update"] }
path "auth/token/create" { capabilities = ["update"] }
`

func isPermDenied(resp *logical.Response, err error) bool {
	if err != nil && strings.Contains(err.Error(), logical.ErrPermissionDenied.Error()) {
		return true
	}
	return false
}

func runC19(rc *RunCtx) {
	s, tp := rc.S, rc.S.Tape
	cacheOff := tp.Pick(2) == 1
	plain := tp.Pick(3) == 2
	ssc := tp.Pick(2) == 0
	n := tp.Range(1, 4)
	sequential := tp.Pick(6) == 5
	wasted := 0
	if !sequential && tp.Pick(3) == 2 {
		wasted = tp.Range(1, n)
	}
	m := n - wasted + tp.Range(1, 4)
	rc.Cfg("cache_off", cacheOff)
	rc.Cfg("plain_disk", plain)
	rc.Cfg("ssc", ssc)
	rc.Cfg("n", n)
	rc.Cfg("wasted", wasted)
	rc.Cfg("sequential", sequential)

	disk := NewDisk(s)
	// second scheduling point per storage operation (effect vs. continuation) in a third of the runs
	disk.PostGate = tp.Pick(3) == 2
	rc.Cfg("post_gate", disk.PostGate)
	disk.RecordOps = true
	rec := NewRecorder(s)
	h, err := BootCore(disk, CoreOpts{
		DisableCache: cacheOff, Plain: plain, DisableSSC: !ssc,
		Logical: map[string]logical.Factory{"rec": RecFactory(rec, false)},
	})
	if err != nil {
		panic(err)
	}
	defer h.Shutdown()
	must(h.Mount("rec", "rec", nil))
	must(h.Policy("p", c19Policy))
	_, err = h.RootWrite("rec/data/x", map[string]any{"value": "v0"})
	must(err)
	// a third of the runs create the token against a token role that carries a
	// period or an explicit maximum (renewals of such tokens consult the role)
	viaRole := tp.Pick(3) == 0
	rc.Cfg("token_role", viaRole)
	var tok string
	baseline := keysUnder(disk, "sys/token/", "sys/expire/", "logical/")
	if viaRole {
		rd := map[string]any{"allowed_policies": "p", "renewable": true}
		if tp.Pick(2) == 0 {
			rd["token_period"] = "1h"
		} else {
			rd["token_explicit_max_ttl"] = "4h"
		}
		_, err = h.RootWrite("auth/token/roles/r19", rd)
		must(err)
		baseline = keysUnder(disk, "sys/token/", "sys/expire/", "logical/")
		r, err := h.Do("setup", Req{Op: logical.UpdateOperation, Path: "auth/token/create/r19", Token: h.Root, Data: map[string]any{"policies": []string{"p"}, "num_uses": n, "ttl": "1h"}})
		if err != nil || r == nil || r.Auth == nil {
			panic(fmt.Sprint("role token: ", err, r))
		}
		tok = r.Auth.ClientToken
	} else {
		tok, _, err = h.CreateToken("", map[string]any{"policies": []string{"p"}, "num_uses": n, "ttl": "1h"})
		must(err)
	}

	kinds := []string{"read", "write", "denied", "fail", "creds", "lookup", "child", "renew", "renew"}
	mkReq := func(k string, i int) Req {
		switch k {
		case "read":
			return Req{Op: logical.ReadOperation, Path: "rec/data/x", Token: tok}
		case "write":
			return Req{Op: logical.UpdateOperation, Path: fmt.Sprintf("rec/data/w%d", i), Token: tok, Data: map[string]any{"value": "w"}}
		case "denied":
			return Req{Op: logical.ReadOperation, Path: "rec/admin/x", Token: tok}
		case "fail":
			return Req{Op: logical.ReadOperation, Path: "rec/fail/x", Token: tok}
		case "creds":
			return Req{Op: logical.ReadOperation, Path: "rec/creds/a", Token: tok}
		case "lookup":
			return Req{Op: logical.ReadOperation, Path: "auth/token/lookup-self", Token: tok}
		case "child":
			return Req{Op: logical.UpdateOperation, Path: "auth/token/create", Token: tok, Data: map[string]any{"policies": []string{"p"}}}
		case "renew":
			return Req{Op: logical.UpdateOperation, Path: "auth/token/renew-self", Token: tok}
		}
		panic(k)
	}

	type outcome struct {
		kind     string
		effect   bool
		secret   string
		childTok string
		err      string
	}
	classify := func(k, tag string, resp *logical.Response, err error, before int) outcome {
		o := outcome{kind: k}
		if err != nil {
			o.err = err.Error()
		}
		if resp != nil && resp.IsError() {
			o.err += " | " + resp.Error().Error()
		}
		reached := false
		for _, e := range rec.Snapshot()[before:] {
			if e.Kind == "handler" && strings.HasPrefix(e.ReqID, tag+"-") {
				reached = true
			}
		}
		// "effect" = the request demonstrably passed token validation
		switch k {
		case "lookup":
			o.effect = err == nil && resp != nil && !resp.IsError() && resp.Data != nil
		case "renew":
			o.effect = err == nil && resp != nil && !resp.IsError() && resp.Auth != nil
		case "child":
			o.effect = (resp != nil && resp.Auth != nil) || strings.Contains(o.err, "restricted use token") || strings.Contains(o.err, "parent token lookup failed")
		default:
			o.effect = reached
		}
		if resp != nil && resp.Secret != nil && resp.Data != nil {
			if id, ok := resp.Data["secret_id"].(string); ok {
				o.secret = id
			}
		}
		if resp != nil && resp.Auth != nil && k != "renew" {
			o.childTok = resp.Auth.ClientToken
		}
		return o
	}

	if sequential {
		// n sequential uses, the last one leases a secret; then one more.
		var plan []string
		for i := 0; i < n-1; i++ {
			plan = append(plan, kinds[tp.Pick(4)])
		}
		plan = append(plan, "creds", kinds[tp.Pick(len(kinds))])
		rc.Cfg("plan", strings.Join(plan, ","))
		s.SetControlled()
		var outs []outcome
		s.Go("c0", func() {
			for i, k := range plan {
				before := len(rec.Snapshot())
				tag := fmt.Sprintf("s%d", i)
				resp, err := h.Do(tag, mkReq(k, i))
				outs = append(outs, classify(k, tag, resp, err, before))
			}
		})
		s.Run()
		s.Drain(30*time.Second, 5*time.Second)
		s.PassThrough()
		if s.Trunc {
			return
		}
		for i, o := range outs {
			if i < n-1 && !o.effect && o.kind != "denied" {
				s.Violate("C19", "use-refused-early", map[string]any{"n": n, "index": i}, "use %d of %d was refused: %s", i+1, n, o.err)
				return
			}
		}
		final := outs[n-1]
		if final.secret != "" {
			s.Violate("C19", "secret-returned-on-final-use", map[string]any{"n": n}, "the secret leased on the final use was returned to the client")
			return
		}
		if !final.effect {
			s.Violate("C19", "use-refused-early", map[string]any{"n": n, "index": n - 1}, "final use refused: %s", final.err)
			return
		}
		if outs[n].effect {
			s.Violate("C19", "use-beyond-limit", map[string]any{"n": n, "mode": "sequential"}, "request %d with an %d-use token had an effect (%s)", n+1, n, outs[n].kind)
			return
		}
		c19Epilogue(rc, h, disk, rec, tok, baseline, n)
		rc.Res.Sample = map[string]any{"mode": "sequential", "plan": plan}
		return
	}

	// sequential wasted uses
	for i := 0; i < wasted; i++ {
		k := []string{"denied", "fail"}[tp.Pick(2)]
		resp, err := h.Do(fmt.Sprintf("w%d", i), mkReq(k, i))
		_ = resp
		_ = err
	}
	var plan []string
	for i := 0; i < m; i++ {
		plan = append(plan, kinds[tp.Pick(len(kinds))])
	}
	if viaRole && m > 1 {
		plan[tp.Pick(m)] = "renew" // the first renewal of a role token is the one that consults the role
	}
	rc.Cfg("plan", strings.Join(plan, ","))
	outs := make([]outcome, m)
	s.SwarmFreeze()
	rc.Cfg("sched", fmt.Sprintf("stall=%d yield_on_release=%v", s.FreezePermille, s.YieldOnRelease))
	s.SetControlled()
	for i, k := range plan {
		i, k := i, k
		tag := fmt.Sprintf("c%d", i)
		s.Go(tag, func() {
			resp, err := h.Do(tag, mkReq(k, i))
			outs[i] = classify(k, tag, resp, err, 0)
		})
	}
	s.Run()
	s.Drain(30*time.Second, 5*time.Second)
	s.PassThrough()
	if s.Trunc {
		return
	}
	effects := 0
	var effKinds []string
	for _, o := range outs {
		if o.effect {
			effects++
			effKinds = append(effKinds, o.kind)
		}
		if o.childTok != "" {
			s.Violate("C19", "child-created-by-use-limited-token", map[string]any{"n": n}, "auth/token/create succeeded with a use-limited token")
			return
		}
	}
	budget := n - wasted
	if effects > budget {
		s.Violate("C19", "use-beyond-limit", map[string]any{"n": n, "wasted": wasted, "effects": effects, "mode": "concurrent"},
			"%d concurrent requests had an effect with an %d-use token of which %d uses were already spent (%v)", effects, n, wasted, effKinds)
		return
	}
	if effects < budget && effects < m {
		// Fewer effects than remaining uses. The statement is "at most n": a
		// request that consumed a use and was then refused because another
		// request's final use had revoked the token in the meantime (reached
		// with long stalls) loses a use without violating anything. Counted,
		// not reported (it used to be a violation class; see DESIGN.md 10.4).
		s.Probe("uses_consumed_without_effect")
	}
	s.Probe(fmt.Sprintf("effects_%d_of_%d", effects, budget))
	c19Epilogue(rc, h, disk, rec, tok, baseline, n)
	rc.Res.Sample = map[string]any{"mode": "concurrent", "plan": plan, "effects": effects, "budget": budget}
}

func c19Epilogue(rc *RunCtx, h *CoreH, disk *Disk, rec *Recorder, tok string, baseline []string, n int) {
	s := rc.S
	if s.Viol != nil {
		return
	}
	// the token must be refused now
	resp, err := h.Do("probe", Req{Op: logical.ReadOperation, Path: "auth/token/lookup-self", Token: tok})
	if !isPermDenied(resp, err) {
		s.Violate("C19", "token-alive-after-last-use", map[string]any{"n": n}, "token still accepted after its uses were spent: %v %v", resp, err)
		return
	}
	resp, err = h.Do("probe", Req{Op: logical.ReadOperation, Path: "rec/data/x", Token: tok})
	if !isPermDenied(resp, err) {
		s.Violate("C19", "token-alive-after-last-use", map[string]any{"n": n}, "token still reads data after its uses were spent")
		return
	}
	// let lazily queued revocations run
	s.SetControlled()
	s.Drain(2*time.Minute, 10*time.Second)
	s.PassThrough()
	after := keysUnder(disk, "sys/token/", "sys/expire/", "logical/")
	var extra []string
	for _, k := range diffKeys(after, baseline) {
		// data written by allowed writes stays, of course
		if strings.Contains(k, "/data/") {
			continue
		}
		extra = append(extra, k)
	}
	if len(extra) > 0 {
		// classify: was every remnant a lease (+index) registered by an
		// in-flight request after the token entry had already been deleted?
		// (i.e. after the revocation had listed the token's lease index)
		lastList := disk.LastOpStep("list", "sys/expire/token/")
		lateLease := lastList >= 0
		for _, k := range extra {
			if !strings.HasPrefix(k, "+sys/expire/") {
				lateLease = false
			} else if strings.HasPrefix(k, "+sys/expire/token/") && disk.FirstPutStep(k[1:]) < lastList {
				lateLease = false
			}
		}
		s.Violate("C19", "remnants-after-last-use", map[string]any{"lease_registered_after_revocation_listed_leases": lateLease}, "token/lease keys remain after the token's last use: %v", extra)
		return
	}
	rec.mu.Lock()
	defer rec.mu.Unlock()
	for id := range rec.Issued {
		if rec.Revoked[id] == 0 {
			s.Violate("C19", "lease-not-revoked-with-token", map[string]any{"n": n}, "secret %s leased under the use-limited token was never revoked at the backend", id)
			return
		}
	}
}

func must(err error) {
	if err != nil {
		panic(err)
	}
}
