package verifsim

import (
	"bytes"
	"fmt"
	"os"
	"sort"
	"strings"

	log "github.com/hashicorp/go-hclog"
	hraft "github.com/hashicorp/raft"
	"github.com/openbao/openbao/v2/internal/physical/raft"
)

// C09 — Raft replicas applying the same log reach the same state and verdicts.
//
// The log is not hand-built: a real single-node leader (RaftBackend +
// hashicorp/raft inside the bubble, FSM apply pacing chosen by the tape, so
// transactions carry stale start indexes) executes the C08 Raft workload;
// its command entries are read back from its log store together with the
// verdict it reported to each client. R=3..5 fresh FSMs then apply that log,
// each with its own tape-chosen partition into ApplyBatch calls, restart
// positions (Close + NewFSM, replay resumes after the persisted index) and
// snapshot-install positions (state of a sibling at that index installed
// through the BoltSnapshotStore sink / Restore path).
//
// Oracle: byte-identical data buckets, identical per-entry verdict vectors,
// equal to the verdicts the leader reported.

func init() {
	register(&Scenario{Prop: "C09", Name: "replica-agreement", Run: runC09})
}

type replica struct {
	id        int
	dir       string
	fsm       *raft.FSM
	verdicts  map[uint64]bool // log index -> conflict verdict
	restarts  []uint64        // log index after which it was restarted
	snapshots []uint64        // log index at which a snapshot was installed
	batches   []int
	// entries that were applied in one batch with a LATER chunk entry (the
	// chunking layer stores a batch's chunks before the batch is applied)
	chunkLater map[uint64]bool
}

// rewindTo finds the position in cmds right after log index `got` when every
// entry in (got, cmds[pos-1].Index] is a chunk of a value whose last chunk has
// not been applied yet.
func rewindTo(cmds []*hraft.Log, pos int, got uint64) (int, bool) {
	np := pos
	for np > 0 && cmds[np-1].Index > got {
		if c, last := raft.VerifChunk(cmds[np-1]); !c || last {
			return 0, false
		}
		np--
	}
	return np, true
}

func runC09(rc *RunCtx) {
	s, tp := rc.S, rc.S.Tape
	h, err := BootRaft(s)
	if err != nil {
		panic(err)
	}
	rr := RunRaftWorkload(rc, h, "C09")
	if s.Viol != nil || s.Trunc {
		h.Close()
		return
	}
	// leader verdicts per command entry
	leader := map[uint64]bool{}
	txStart := map[uint64]uint64{}
	listsRoot := map[uint64]bool{}          // transactions that listed the root prefix ""
	appliedDuringBegin := map[uint64]bool{} // entries were applied on the leader while the transaction's BeginTx ran
	var cmds []*hraft.Log
	chunkEntries := 0
	pi := 0
	match := rr.Matcher()
	for _, l := range rr.Logs {
		if isChunk, last := raft.VerifChunk(l); isChunk {
			s.Probe("chunk_entries")
			chunkEntries++
			if !last {
				cmds = append(cmds, l) // a proposal is answered with its last chunk
				continue
			}
		}
		if l.Type == hraft.LogCommand {
			kind, _, _, start := raft.VerifLogKind(l)
			p := match(l)
			pi++
			if p == nil {
				panic(fmt.Sprintf("raft log entry %d (%s) matches no outstanding proposal", l.Index, kind))
			}
			if !p.done {
				h.Close()
				return // truncated leader run
			}
			leader[l.Index] = p.err != nil
			if kind == "tx" {
				txStart[l.Index] = start
				if p.txn != nil && p.txn.idxAfterBegin > p.txn.beginIdx {
					appliedDuringBegin[l.Index] = true
				}
				if p.txn != nil {
					for _, o := range p.txn.ops {
						if (o.kind == 'l' || o.kind == 'p') && o.key == "" {
							listsRoot[l.Index] = true
						}
					}
				}
			}
		}
		cmds = append(cmds, l)
	}
	leaderKeys, leaderVals := raft.VerifDump(raft.VerifFSM(h.B))
	h.Close()
	if len(cmds) == 0 {
		return
	}
	logger := log.NewNullLogger()
	nRep := 3 + tp.Pick(3)
	if !rc.Thorough() {
		nRep = 2 + tp.Pick(2)
	}
	reps := make([]*replica, nRep)
	defer func() {
		for _, r := range reps {
			if r != nil {
				if r.fsm != nil {
					r.fsm.Close()
				}
				os.RemoveAll(r.dir)
			}
		}
	}()
	for i := range reps {
		dir := mkTemp("c09")
		f, err := raft.NewFSM(dir, fmt.Sprintf("replica%d", i), logger)
		if err != nil {
			panic(err)
		}
		reps[i] = &replica{id: i, dir: dir, fsm: f, verdicts: map[uint64]bool{}}
	}
	// replica 0 is the plain one: one entry per batch, no restart
	for ri, r := range reps {
		pos := 0
		for pos < len(cmds) {
			n := 1
			if ri > 0 {
				n = 1 + tp.Pick(6)
				if tp.Pick(8) == 7 {
					n = 64
				}
			}
			if pos+n > len(cmds) {
				n = len(cmds) - pos
			}
			batch := cmds[pos : pos+n]
			resps := raft.VerifApplyBatch(r.fsm, batch)
			r.batches = append(r.batches, n)
			for i, l := range batch {
				for _, m := range batch[i+1:] {
					if c, _ := raft.VerifChunk(m); c {
						if r.chunkLater == nil {
							r.chunkLater = map[uint64]bool{}
						}
						r.chunkLater[l.Index] = true
					}
				}
				if isChunk, last := raft.VerifChunk(l); isChunk && !last {
					continue
				}
				if l.Type == hraft.LogCommand {
					r.verdicts[l.Index] = raft.VerifIsTxError(resps[i])
				}
			}
			pos += n
			last := cmds[pos-1].Index
			if ri > 0 && pos < len(cmds) {
				switch tp.Pick(6) {
				case 0: // restart
					r.fsm.Close()
					f, err := raft.NewFSM(r.dir, fmt.Sprintf("replica%d", ri), logger)
					if err != nil {
						panic(err)
					}
					r.fsm = f
					if got := raft.VerifFSMIndex(f); got != last {
						// the persisted index may lag only by chunks of a value that is
						// not complete yet (they are stored, the state machine proper
						// has not seen the entry); hashicorp/raft then replays from
						// the persisted index, and so does this driver
						if np, ok := rewindTo(cmds, pos, got); ok {
							pos = np
							s.Probe("restart_inside_chunked_value")
						} else {
							s.Violate("C09", "restart-lost-applied-index", nil, "replica %d reopened at index %d after applying up to %d", ri, got, last)
							return
						}
					}
					r.restarts = append(r.restarts, last)
					s.Faults["replica-restart"]++
				case 1: // snapshot install from replica 0 (which is complete): bring a sibling to `last` first
					src := reps[0]
					if raft.VerifFSMIndex(src.fsm) >= last && ri > 1 {
						// use the previous replica's state only if it is exactly at `last`
					}
					// build a donor at exactly `last`
					ddir := mkTemp("c09d")
					donor, err := raft.NewFSM(ddir, "donor", logger)
					if err != nil {
						panic(err)
					}
					for _, l := range cmds[:pos] {
						raft.VerifApplyBatch(donor, []*hraft.Log{l})
					}
					if dk, _ := raft.VerifDump(donor); len(dk) == 0 {
						// an empty data bucket streams zero bytes and cannot be
						// installed through the sink (never the case for a real
						// cluster, whose storage always holds core records)
						donor.Close()
						os.RemoveAll(ddir)
						continue
					}
					err = raft.VerifInstallSnapshot(donor, ddir, r.fsm, r.dir, logger)
					donor.Close()
					os.RemoveAll(ddir)
					if err != nil {
						panic(fmt.Sprintf("snapshot install: %v", err))
					}
					if got := raft.VerifFSMIndex(r.fsm); got != last {
						// (non-final chunks do not move the state machine's index: a
						// snapshot taken inside a chunked command reports the index
						// before it. Raft goes on with the entry after the snapshot's
						// index - the parts received so far travel in the snapshot)
						if _, ok := rewindTo(cmds, pos, got); ok {
							s.Probe("snapshot_inside_chunked_value")
						} else {
							s.Violate("C09", "snapshot-install-wrong-index", nil, "replica %d at index %d after installing a snapshot taken at %d", ri, got, last)
							return
						}
					}
					r.snapshots = append(r.snapshots, last)
					s.Faults["snapshot-install"]++
				}
			}
		}
	}
	// compare
	describe := func(r *replica) string {
		return fmt.Sprintf("replica %d (batches %v, restarted after %v, snapshot installed at %v)", r.id, r.batches, r.restarts, r.snapshots)
	}
	inWindow := func(r *replica, idx uint64) bool {
		st, ok := txStart[idx]
		if !ok {
			return false
		}
		for _, x := range append(append([]uint64{}, r.restarts...), r.snapshots...) {
			if x > st && x < idx {
				return true
			}
		}
		return false
	}
nextReplica:
	for _, r := range reps {
		for _, l := range cmds {
			if l.Type != hraft.LogCommand {
				continue
			}
			if r.verdicts[l.Index] != leader[l.Index] {
				sig := map[string]any{"restart_or_snapshot_inside_txn_window": inWindow(r, l.Index), "leader_said_conflict": leader[l.Index], "applied_on_leader_during_begin": appliedDuringBegin[l.Index]}
				if listsRoot[l.Index] && (r.chunkLater[l.Index] || chunkEntries > 0) {
					// the transaction listed the root prefix and the log holds chunked
					// values: chunk storage shares the key space (F22)
					sig["root_listing_and_chunk_storage"] = true
				}
				var logDesc []string
				for _, x := range cmds {
					k, w, _, st := raft.VerifLogKind(x)
					var ks []string
					for key := range w {
						ks = append(ks, key)
					}
					sort.Strings(ks)
					logDesc = append(logDesc, fmt.Sprintf("%d:%s%v@%d", x.Index, k, ks, st))
				}
				msg := fmt.Sprintf("entry %d: leader told the client conflict=%v, %s reached conflict=%v (transaction start index %d); log: %v; leader history: %v",
					l.Index, leader[l.Index], describe(r), r.verdicts[l.Index], txStart[l.Index], logDesc, tail(rr.Hist, 30))
				if inWindow(r, l.Index) {
					// does not end the run: the other replicas are still compared
					s.ViolateSoft("C09", "replica-verdict-differs-from-leader", sig, "%s", msg)
					continue nextReplica
				}
				s.Violate("C09", "replica-verdict-differs-from-leader", sig, "%s", msg)
				return
			}
		}
		keys, vals := raft.VerifDump(r.fsm)
		if !eqStrings(keys, leaderKeys) {
			s.Violate("C09", "replica-state-diverged", nil, "%s has keys %v, leader %v", describe(r), keys, leaderKeys)
			return
		}
		for i := range keys {
			if !bytes.Equal(vals[i], leaderVals[i]) {
				s.Violate("C09", "replica-state-diverged", nil, "%s: %q = %q, leader %q", describe(r), keys[i], vals[i], leaderVals[i])
				return
			}
		}
	}
	s.ProbeN("replicas", nRep)
	s.ProbeN("log_entries", len(cmds))
	ntx := len(txStart)
	s.ProbeN("tx_entries", ntx)
	rc.Res.Evals = nRep
	rc.Res.Sample = map[string]any{"entries": len(cmds), "replicas": func() []string {
		var o []string
		for _, r := range reps {
			o = append(o, describe(r))
		}
		return o
	}(), "leader_history": tail(rr.Hist, 20)}
	rc.Res.StateSig = fmt.Sprintf("e%d/tx%d/%s", len(cmds), ntx, strings.Join(leaderKeys, ","))
}
