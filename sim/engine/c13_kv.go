package verifsim

import (
	"context"
	"bytes"
	"fmt"
	"os"
	"sort"
	"strings"

	log "github.com/hashicorp/go-hclog"
	"github.com/openbao/openbao/sdk/v2/logical"
)

// C13 — all storage backends and layers implement one key/value and listing
// contract.
//
// Each run draws a stack (bottom: simdisk txn/plain, inmem txn/plain, file,
// Raft FSM; layers: key-encoding, cache with a tiny size, physical view,
// barrier, nested storage views) and an operation history (also through
// read-write and read-only transactions), and compares every return value
// with a sorted-map reference model. Faults: storage errors beneath the
// cache (simdisk bottom), cache purge, close/reopen of file and bolt stores.
// Foreign keys planted outside the view prefix must never be seen or touched.

func init() {
	register(&Scenario{Prop: "C13", Name: "kv-contract", NoBubble: true, Run: runC13})
}

// (valid, printable segments: two-byte and three-byte runes, U+FFFD itself -
// which is what a decoder yields for malformed input but is a perfectly valid
// rune when encoded properly -, a leading underscore (the file backend marks
// keys with one), a space, a long segment)
var c13Segs = []string{"a", "b", "ab", "a.b", "a-", "é", "k0", "z", "A", "a0", "q\uFFFDr", "日本", "_u", "a b", strings.Repeat("L", 120)}

func genKey(tp *Tape) string {
	depth := 1 + tp.Pick(3)
	var parts []string
	for i := 0; i < depth; i++ {
		parts = append(parts, c13Segs[tp.Pick(len(c13Segs))])
	}
	return strings.Join(parts, "/")
}

func genPrefix(tp *Tape) string {
	depth := tp.Pick(3)
	p := ""
	for i := 0; i < depth; i++ {
		p += c13Segs[tp.Pick(len(c13Segs))] + "/"
	}
	return p
}

func genAfter(tp *Tape, m *KV, prefix string) string {
	switch tp.Pick(8) {
	case 0:
		return ""
	case 1, 2: // an existing entry
		l := m.List(prefix)
		if len(l) > 0 {
			return l[tp.Pick(len(l))]
		}
		return ""
	case 3:
		return c13Segs[tp.Pick(len(c13Segs))]
	case 4:
		return "."
	case 5:
		return ".."
	case 6:
		return c13Segs[tp.Pick(len(c13Segs))] + "/"
	default:
		return "zzzz"
	}
}

func genLimit(tp *Tape) int {
	return []int{-1, 0, 1, 2, 3, 100}[tp.Pick(6)]
}

type c13Ctx struct {
	rc      *RunCtx
	st      *Stack
	model   *KV
	foreign map[string][]byte
	nops    int
	faulted bool
	desc    []string
}

func (c *c13Ctx) viol(class string, sig map[string]any, format string, a ...any) {
	if sig == nil {
		sig = map[string]any{}
	}
	sig["stack"] = c.st.Name
	c.rc.S.Violate("C13", class, sig, "stack %s: %s; history: %v", c.st.Name, fmt.Sprintf(format, a...), tail(c.desc, 12))
}

func tail(s []string, n int) []string {
	if len(s) > n {
		return s[len(s)-n:]
	}
	return s
}

func sortedCopy(s []string) []string {
	o := append([]string(nil), s...)
	sort.Strings(o)
	return o
}

// compare one op on `kv` against model `m`.
func (c *c13Ctx) doOp(kv kvAPI, m *KV, inTx bool, readOnly bool) bool {
	tp := c.rc.S.Tape
	s := c.rc.S
	c.nops++
	where := ""
	if inTx {
		where = "tx-"
	}
	switch tp.Pick(8) {
	case 0, 1: // put
		k := genKey(tp)
		v := []byte(fmt.Sprintf("v%d-%s", c.nops, k))
		c.desc = append(c.desc, where+"put "+k)
		err := kv.Put(k, v)
		if readOnly {
			if err == nil {
				c.viol("readonly-tx-accepted-write", nil, "put %q in a read-only transaction succeeded", k)
				return false
			}
			return true
		}
		if err != nil {
			if c.faulted {
				c.faulted = false
				return true
			}
			c.viol("put-failed", nil, "put %q: %v", k, err)
			return false
		}
		m.Put(k, v)
	case 2: // delete
		k := genKey(tp)
		if tp.Pick(2) == 0 {
			if ks := m.Keys(); len(ks) > 0 {
				k = ks[tp.Pick(len(ks))]
			}
		}
		c.desc = append(c.desc, where+"del "+k)
		err := kv.Delete(k)
		if readOnly {
			if err == nil {
				c.viol("readonly-tx-accepted-write", nil, "delete %q in a read-only transaction succeeded", k)
				return false
			}
			return true
		}
		if err != nil {
			if c.faulted {
				c.faulted = false
				return true
			}
			c.viol("delete-failed", nil, "delete %q: %v", k, err)
			return false
		}
		m.Delete(k)
	case 3, 4: // get
		k := genKey(tp)
		if tp.Pick(2) == 0 {
			if ks := m.Keys(); len(ks) > 0 {
				k = ks[tp.Pick(len(ks))]
			}
		}
		c.desc = append(c.desc, where+"get "+k)
		v, ok, err := kv.Get(k)
		if err != nil {
			if c.faulted {
				c.faulted = false
				return true
			}
			c.viol("get-failed", nil, "get %q: %v", k, err)
			return false
		}
		mv, mok := m.Get(k)
		if ok != mok || !bytes.Equal(v, mv) {
			c.viol("get-mismatch", map[string]any{"in_tx": inTx}, "get %q = (%q,%v), model (%q,%v)", k, v, ok, mv, mok)
			return false
		}
		s.Probe("get_checked")
	case 5: // list
		p := genPrefix(tp)
		c.desc = append(c.desc, where+"list "+p)
		l, err := kv.List(p)
		if err != nil {
			if c.faulted {
				c.faulted = false
				return true
			}
			c.viol("list-failed", nil, "list %q: %v", p, err)
			return false
		}
		ml := m.List(p)
		if !eqStrings(sortedCopy(l), ml) {
			c.viol("list-mismatch", map[string]any{"in_tx": inTx}, "list %q = %v, model %v", p, l, ml)
			return false
		}
		if len(ml) > 0 {
			s.Probe("list_nonempty_checked")
		}
	default: // list page
		p := genPrefix(tp)
		after := genAfter(tp, m, p)
		limit := genLimit(tp)
		c.desc = append(c.desc, fmt.Sprintf("%spage %q after=%q limit=%d", where, p, after, limit))
		l, err := kv.ListPage(p, after, limit)
		if err != nil {
			if c.faulted {
				c.faulted = false
				return true
			}
			c.viol("listpage-failed", nil, "listpage %q after %q limit %d: %v", p, after, limit, err)
			return false
		}
		ml := m.ListPage(p, after, limit)
		if !eqStrings(l, ml) {
			afterKind := "plain"
			switch {
			case after == "." || after == "..":
				afterKind = "dot"
			case strings.Contains(after, "/"):
				afterKind = "slash"
			}
			c.viol("listpage-mismatch", map[string]any{"in_tx": inTx, "after_kind": afterKind, "bottom": c.st.Layers[0]},
				"listpage %q after=%q limit=%d = %v, model %v", p, after, limit, l, ml)
			return false
		}
		if len(ml) > 0 && after != "" {
			s.Probe("page_after_nonempty_checked")
		}
	}
	return true
}

func runC13(rc *RunCtx) {
	tp := rc.S.Tape
	if tp.Pick(5) == 4 {
		inBubble(rc, func() { runC13Concurrent(rc) })
		return
	}
	if tp.Pick(16) == 15 {
		// the real RaftBackend under the same layers (its goroutines and timers need the bubble)
		inBubble(rc, func() { runC13Seq(rc, "raft") })
		return
	}
	runC13Seq(rc, "")
}

func runC13Seq(rc *RunCtx, bottom string) {
	s, tp := rc.S, rc.S.Tape
	bottoms := []string{"simdisk", "simdisk-plain", "inmem", "inmem-plain", "simdisk", "inmem", "file", "fsm"}
	o := StackOpts{Bottom: bottoms[tp.Pick(len(bottoms))]}
	if bottom != "" {
		o.Bottom = bottom
	}
	o.Encoding = tp.Pick(2) == 1
	if tp.Pick(2) == 1 {
		o.CacheSize = []int{1, 2, 4, 8, 64, 200}[tp.Pick(6)]
	}
	if tp.Pick(3) == 2 {
		o.PhysView = []string{"pv/", "p/q/"}[tp.Pick(2)]
	}
	if tp.Pick(2) == 1 {
		o.Barrier = true
		nv := tp.Pick(3)
		for i := 0; i < nv; i++ {
			o.Views = append(o.Views, []string{"logical/", "u1/", "a/", "x/y/"}[tp.Pick(4)])
		}
		if len(o.Views) == 0 {
			// the barrier keeps its own records (core/keyring, core/root-key)
			// at its root; data always lives under a view
			o.Views = []string{"logical/"}
		}
	}
	if o.Bottom == "file" || o.Bottom == "fsm" {
		o.Dir = mkTemp("c13")
		defer os.RemoveAll(o.Dir)
	}
	faults := strings.HasPrefix(o.Bottom, "simdisk") && tp.Pick(3) == 2
	rc.Cfg("stack", o.String())
	rc.Cfg("faults", faults)
	st, err := BuildStack(s, o)
	if err != nil {
		panic(err)
	}
	st.Layers = strings.Split(o.String(), ">")
	if st.Close != nil {
		defer st.Close()
	}
	c := &c13Ctx{rc: rc, st: st, model: NewKV(), foreign: map[string][]byte{}}

	// foreign keys outside the view prefix (only meaningful when a prefix exists)
	if st.Prefix != "" {
		for i := 0; i < 3; i++ {
			k := "foreign/" + genKey(tp)
			if i == 2 {
				// sibling that shares the prefix string without the slash
				k = strings.TrimSuffix(st.Prefix, "/") + "x/" + genKey(tp)
			}
			v := []byte("foreign-" + k)
			bk := physKV{st.Bottom}
			if err := bk.Put(k, v); err != nil {
				panic(err)
			}
			c.foreign[k] = v
		}
	}

	// now and then a directory wider than the helpers' default scan page
	// (logical.DefaultScanViewPageLimit entries): the page boundary of the
	// production page size is crossed, by leaves and by a folder
	if st.Storage != nil && !faults && (o.Bottom == "inmem" || o.Bottom == "simdisk" || o.Bottom == "inmem-plain") && tp.Pick(25) == 0 {
		n := logical.DefaultScanViewPageLimit - 3 + tp.Pick(50)
		folderAt := logical.DefaultScanViewPageLimit - 2 + tp.Pick(5)
		for i := 0; i < n; i++ {
			k := fmt.Sprintf("wide/%05d", i)
			if i == folderAt {
				k += "/a/b"
			}
			v := []byte("w")
			if err := st.KV.Put(k, v); err != nil {
				panic(err)
			}
			c.model.Put(k, v)
		}
		ks, err := logical.CollectKeys(bg, st.Storage)
		if err != nil || !eqStrings(sortedCopy(ks), c.model.Keys()) {
			miss := diffKeys(c.model.Keys(), sortedCopy(ks))
			c.viol("collectkeys-mismatch", map[string]any{"helper": "CollectKeys", "wide_directory": true}, "CollectKeys over a directory of %d entries returned %d keys (err %v); not visited: %v", n, len(ks), err, tail(miss, 5))
			return
		}
		if cnt, err := logical.CountKeys(bg, st.Storage); err != nil || cnt != len(c.model.Keys()) {
			c.viol("collectkeys-mismatch", map[string]any{"helper": "CountKeys", "wide_directory": true}, "CountKeys = %d (err %v), the view holds %d keys", cnt, err, len(c.model.Keys()))
			return
		}
		if tp.Pick(2) == 0 {
			if err := logical.ClearViewWithPagination(bg, st.Storage, log.NewNullLogger()); err != nil {
				c.viol("clearview-failed", nil, "ClearView over a wide directory: %v", err)
				return
			}
			c.model = NewKV()
			if left, _ := logical.CollectKeys(bg, st.Storage); len(left) > 0 {
				c.viol("clearview-left-keys", map[string]any{"wide_directory": true}, "ClearView over a directory of %d entries left %d keys behind: %v", n, len(left), tail(left, 5))
				return
			}
			if raw, _ := (physKV{st.Bottom}).List(st.Prefix + "wide/"); len(raw) > 0 {
				c.viol("clearview-left-keys", map[string]any{"wide_directory": true}, "ClearView left %d entries under wide/ in the backend", len(raw))
				return
			}
		}
		s.Probe("wide_directory_checked")
	}
	nOps := 40
	if rc.Thorough() {
		nOps = 200
	}
	nOps = 10 + tp.Pick(nOps)
	if o.Bottom == "fsm" || o.Bottom == "file" || o.Bottom == "raft" {
		nOps = 5 + nOps/3 // every write is an fsync
	}
	for i := 0; i < nOps && s.Viol == nil; i++ {
		s.Steps++
		// fault beneath the cache for the next bottom operation
		if faults && st.Disk != nil && tp.Chance(60) {
			st.Disk.FailNext = 1
			c.faulted = true
			s.Faults["err-na"]++
		} else {
			c.faulted = false
			if st.Disk != nil {
				st.Disk.FailNext = 0
			}
		}
		r := tp.Pick(20)
		switch {
		case r == 0 && st.Begin != nil: // a transaction
			ro := tp.Pick(3) == 2
			c.desc = append(c.desc, fmt.Sprintf("begin ro=%v", ro))
			tx, err := st.Begin(ro)
			if err != nil {
				if c.faulted {
					continue
				}
				c.viol("begin-failed", nil, "begin: %v", err)
				return
			}
			tm := c.model.Clone()
			n := 1 + tp.Pick(6)
			ok := true
			for j := 0; j < n && ok; j++ {
				ok = c.doOp(tx, tm, true, ro)
			}
			if !ok {
				// (never leave a transaction to the garbage collector: the raft
				// backend's clean-up of a leaked transaction would run outside the bubble)
				tx.Rollback()
				return
			}
			if tp.Pick(4) == 3 {
				c.desc = append(c.desc, "rollback")
				if err := tx.Rollback(); err != nil {
					c.viol("rollback-failed", nil, "rollback: %v", err)
					return
				}
			} else {
				c.desc = append(c.desc, "commit")
				if err := tx.Commit(); err != nil {
					if c.faulted {
						c.faulted = false
						continue
					}
					c.viol("commit-failed-without-concurrency", nil, "commit with no concurrent activity failed: %v", err)
					return
				}
				if !ro {
					c.model = tm
				}
			}
			// ("a finished transaction refuses further use" is C08's clause and is checked there)
			s.Probe("tx_done")
		case r == 1 && st.Cache != nil:
			c.desc = append(c.desc, "purge")
			st.Cache.Purge(bg)
			s.Probe("cache_purged")
		case r == 2 && st.Storage != nil: // recursive helpers
			c.desc = append(c.desc, "collect")
			bs := &budgetStorage{Storage: st.Storage, left: helperOpBudget}
			ks, err := logical.CollectKeys(bg, bs)
			if err != nil {
				if bs.exhausted {
					c.viol("scan-helper-did-not-terminate", map[string]any{"bottom": c.st.Layers[0]},
						"CollectKeys over %d keys made more than %d storage calls (a page that repeats entries at or before 'after' never ends the scan)", len(c.model.M), helperOpBudget)
					return
				}
				if c.faulted {
					c.faulted = false
					continue
				}
				c.viol("collect-failed", nil, "CollectKeys: %v", err)
				return
			}
			if !eqStrings(sortedCopy(ks), c.model.Keys()) {
				c.viol("collectkeys-mismatch", nil, "CollectKeys = %v, model %v", sortedCopy(ks), c.model.Keys())
				return
			}
			s.Probe("collect_checked")
			// the same scan with a caller-chosen page size (directories wider than
			// a page are walked in several pages), the count and a prefix filter
			if !c.faulted {
				ps := []int{1, 2, 3, 5, 7}[tp.Pick(5)]
				var got []string
				bs := &budgetStorage{Storage: st.Storage, left: helperOpBudget}
				err := logical.ScanViewPaginated(bg, bs, log.NewNullLogger(), ps, func(page, index int, path string) (bool, error) {
					got = append(got, path)
					return true, nil
				})
				if err != nil && bs.exhausted {
					c.viol("scan-helper-did-not-terminate", map[string]any{"bottom": c.st.Layers[0]}, "ScanViewPaginated(page size %d) over %d keys made more than %d storage calls", ps, len(c.model.M), helperOpBudget)
					return
				}
				if err == nil && !eqStrings(sortedCopy(got), c.model.Keys()) {
					c.viol("collectkeys-mismatch", map[string]any{"helper": "ScanViewPaginated"}, "ScanViewPaginated(page size %d) visited %v, the view holds %v", ps, sortedCopy(got), c.model.Keys())
					return
				}
				if n, err := logical.CountKeys(bg, st.Storage); err == nil && n != len(c.model.Keys()) {
					c.viol("collectkeys-mismatch", map[string]any{"helper": "CountKeys"}, "CountKeys = %d, the view holds %d keys", n, len(c.model.Keys()))
					return
				}
				if mk := c.model.Keys(); len(mk) > 0 {
					pfx := mk[tp.Pick(len(mk))]
					pfx = pfx[:1+tp.Pick(len(pfx))]
					var want []string
					for _, k := range mk {
						if strings.HasPrefix(k, pfx) {
							want = append(want, k)
						}
					}
					if got, err := logical.CollectKeysWithPrefix(bg, st.Storage, pfx); err == nil && !eqStrings(sortedCopy(got), want) {
						c.viol("collectkeys-mismatch", map[string]any{"helper": "CollectKeysWithPrefix"}, "CollectKeysWithPrefix(%q) = %v, want %v", pfx, sortedCopy(got), want)
						return
					}
				}
				s.Probe("paged_scan_checked")
			}
		case r == 3 && st.Storage != nil && tp.Pick(4) == 0:
			c.desc = append(c.desc, "clearview")
			var err error
			bs := &budgetStorage{Storage: st.Storage, left: helperOpBudget}
			if tp.Pick(2) == 0 {
				err = logical.ClearViewWithPagination(bg, bs, log.NewNullLogger())
			} else {
				err = logical.ClearViewWithoutPagination(bg, bs, log.NewNullLogger())
			}
			if err != nil && bs.exhausted {
				c.viol("scan-helper-did-not-terminate", map[string]any{"bottom": c.st.Layers[0]},
					"ClearView over %d keys made more than %d storage calls", len(c.model.M), helperOpBudget)
				return
			}
			if err != nil {
				if c.faulted {
					// partial clear: resynchronise the model from the truth
					c.faulted = false
					c.resync()
					continue
				}
				c.viol("clearview-failed", nil, "ClearView: %v", err)
				return
			}
			c.model = NewKV()
			s.Probe("clearview_checked")
		case r == 4 && st.Reopen != nil:
			c.desc = append(c.desc, "reopen")
			if st.Disk != nil {
				st.Disk.FailNext = 0
			}
			c.faulted = false
			if err := st.Reopen(); err != nil {
				c.viol("reopen-failed", nil, "reopen: %v", err)
				return
			}
			s.Probe("reopened")
		default:
			if !c.doOp(st.KV, c.model, false, false) {
				return
			}
		}
	}
	if s.Viol != nil {
		return
	}
	if st.Disk != nil {
		st.Disk.FailNext = 0
	}
	// final full comparison and foreign-key check
	for _, k := range c.model.Keys() {
		v, ok, err := st.KV.Get(k)
		mv, _ := c.model.Get(k)
		if err != nil || !ok || !bytes.Equal(v, mv) {
			c.viol("final-get-mismatch", nil, "final get %q = (%q,%v,%v), model %q", k, v, ok, err, mv)
			return
		}
	}
	for k, v := range c.foreign {
		bk := physKV{st.Bottom}
		got, ok, err := bk.Get(k)
		if err != nil || !ok || !bytes.Equal(got, v) {
			c.viol("foreign-key-affected", nil, "key %q outside the view prefix %q was changed or removed", k, st.Prefix)
			return
		}
	}
	rc.Res.Sample = map[string]any{"stack": st.Name, "ops": tail(c.desc, 15)}
	rc.Res.StateSig = fmt.Sprintf("%s/%d", st.Name, len(c.model.M))
}

// helperOpBudget bounds the storage calls one recursive helper may make over
// the (at most a few dozen keys of the) generated store: a helper that loops
// because a page repeats entries is reported as a violation of the contract
// instead of hanging the run.
const helperOpBudget = 20000

type budgetStorage struct {
	logical.Storage
	left      int
	exhausted bool
}

func (b *budgetStorage) spend() error {
	b.left--
	if b.left < 0 {
		b.exhausted = true
		return fmt.Errorf("verif: helper exceeded its storage call budget")
	}
	return nil
}

func (b *budgetStorage) List(ctx context.Context, p string) ([]string, error) {
	if err := b.spend(); err != nil {
		return nil, err
	}
	return b.Storage.List(ctx, p)
}

func (b *budgetStorage) ListPage(ctx context.Context, p, after string, limit int) ([]string, error) {
	if err := b.spend(); err != nil {
		return nil, err
	}
	return b.Storage.ListPage(ctx, p, after, limit)
}

func (b *budgetStorage) Get(ctx context.Context, k string) (*logical.StorageEntry, error) {
	if err := b.spend(); err != nil {
		return nil, err
	}
	return b.Storage.Get(ctx, k)
}

func (b *budgetStorage) Delete(ctx context.Context, k string) error {
	if err := b.spend(); err != nil {
		return err
	}
	return b.Storage.Delete(ctx, k)
}

// resync reloads the model from the stack after a legitimately partial
// multi-key helper (only after an injected fault).
func (c *c13Ctx) resync() {
	if c.st.Disk != nil {
		c.st.Disk.FailNext = 0
	}
	ks, err := logical.CollectKeys(bg, c.st.Storage)
	if err != nil {
		panic(err)
	}
	m := NewKV()
	for _, k := range ks {
		v, ok, err := c.st.KV.Get(k)
		if err != nil || !ok {
			panic(fmt.Sprintf("resync get %q: %v %v", k, ok, err))
		}
		m.Put(k, v)
	}
	c.model = m
}

// ---- concurrent mode: 2-3 tasks through the cache over the gated simulated
// disk, storage errors beneath the cache; oracle: every read returns nil or a
// value some put wrote under that very key, and at quiescence the stack
// (through its cache) agrees key by key with a cache-less stack over the same
// disk - i.e. no stale or phantom cache entry survives. ----

func runC13Concurrent(rc *RunCtx) {
	s, tp := rc.S, rc.S.Tape
	o := StackOpts{Bottom: []string{"simdisk", "simdisk-plain"}[tp.Pick(2)], CacheSize: []int{4, 8, 64, 300}[tp.Pick(4)]}
	o.Encoding = tp.Pick(2) == 1
	if tp.Pick(2) == 1 {
		o.Barrier = true
		o.Views = []string{"logical/"}
	}
	faulty := tp.Pick(2) == 1
	rc.Cfg("stack", "concurrent:"+o.String())
	rc.Cfg("faults", faulty)
	st, err := BuildStack(s, o)
	if err != nil {
		panic(err)
	}
	st.Disk.PostGate = tp.Pick(3) != 0
	rc.Cfg("post_gate", st.Disk.PostGate)
	keys := []string{"a", "b", "d/x"}
	written := map[string]map[string]bool{}
	for _, k := range keys {
		written[k] = map[string]bool{}
	}
	nTasks := 2 + tp.Pick(2)
	type cop struct {
		kind string // put get del tx
		key  string
		val  string
		key2 string
	}
	nval := 0
	scripts := make([][]cop, nTasks)
	for t := range scripts {
		for j := 0; j < 3+tp.Pick(4); j++ {
			k := keys[tp.Pick(len(keys))]
			switch tp.Pick(6) {
			case 0, 1:
				nval++
				v := fmt.Sprintf("v%d", nval)
				written[k][v] = true
				scripts[t] = append(scripts[t], cop{kind: "put", key: k, val: v})
			case 2, 3:
				scripts[t] = append(scripts[t], cop{kind: "get", key: k})
			case 4:
				scripts[t] = append(scripts[t], cop{kind: "del", key: k})
			default:
				if st.Begin != nil {
					nval++
					v := fmt.Sprintf("v%d", nval)
					k2 := keys[tp.Pick(len(keys))]
					written[k2][v] = true
					scripts[t] = append(scripts[t], cop{kind: "tx", key: k, key2: k2, val: v})
				}
			}
		}
	}
	var hist []string
	bad := ""
	if faulty {
		s.SetFaults(60, 3, FaultErrNA)
	}
	s.SwarmFreeze()
	rc.Cfg("sched", fmt.Sprintf("stall=%d yield_on_release=%v", s.FreezePermille, s.YieldOnRelease))
	s.SetControlled()
	for t := range scripts {
		t := t
		name := fmt.Sprintf("c%d", t)
		s.Go(name, func() {
			for _, op := range scripts[t] {
				switch op.kind {
				case "put":
					err := st.KV.Put(op.key, []byte(op.val))
					s.mu.Lock()
					hist = append(hist, fmt.Sprintf("%s put %s=%s -> %v", name, op.key, op.val, err == nil))
					s.mu.Unlock()
				case "del":
					err := st.KV.Delete(op.key)
					s.mu.Lock()
					hist = append(hist, fmt.Sprintf("%s del %s -> %v", name, op.key, err == nil))
					s.mu.Unlock()
				case "get":
					v, ok, err := st.KV.Get(op.key)
					s.mu.Lock()
					hist = append(hist, fmt.Sprintf("%s get %s = %q %v %v", name, op.key, v, ok, err == nil))
					if err == nil && ok && !written[op.key][string(v)] && bad == "" {
						bad = fmt.Sprintf("get %q returned %q, which was never written under that key", op.key, v)
					}
					s.mu.Unlock()
				case "tx":
					tx, err := st.Begin(false)
					if err != nil {
						continue
					}
					_, _, err = tx.Get(op.key)
					if err == nil {
						err = tx.Put(op.key2, []byte(op.val))
					}
					if err == nil {
						err = tx.Commit()
					} else {
						tx.Rollback()
					}
					s.mu.Lock()
					hist = append(hist, fmt.Sprintf("%s tx get %s put %s=%s -> %v", name, op.key, op.key2, op.val, err == nil))
					s.mu.Unlock()
				}
			}
		})
	}
	s.Run()
	s.SetFaults(0, 0)
	s.PassThrough()
	if s.Trunc {
		return
	}
	if bad != "" {
		s.Violate("C13", "read-returned-unwritten-value", map[string]any{"stack": st.Name}, "stack %s: %s; history %v", st.Name, bad, hist)
		return
	}
	// cache-less twin over the same disk
	o2 := o
	o2.CacheSize = 0
	twin := &Stack{Disk: st.Disk, Bottom: st.Bottom, Barrier: st.Barrier, barrierKey: st.barrierKey}
	if err := layer(twin, st.Bottom, o2); err != nil {
		panic(err)
	}
	for _, k := range keys {
		v1, ok1, err1 := st.KV.Get(k)
		v2, ok2, err2 := twin.KV.Get(k)
		if err1 != nil || err2 != nil {
			panic(fmt.Sprint("final read: ", err1, err2))
		}
		if ok1 != ok2 || string(v1) != string(v2) {
			s.Violate("C13", "cache-incoherent-at-quiescence", map[string]any{"faulty": s.Faults["err-na"] > 0, "transactional": st.Begin != nil},
				"stack %s: at quiescence get %q through the cache = (%q,%v) but the store holds (%q,%v); history %v", st.Name, k, v1, ok1, v2, ok2, hist)
			return
		}
	}
	rc.Res.Sample = map[string]any{"stack": st.Name, "history": tail(hist, 16)}
	rc.Res.StateSig = "conc/" + st.Name
}
