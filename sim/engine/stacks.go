package verifsim

import (
	"context"
	crand "crypto/rand"
	"fmt"
	"os"
	"strings"

	log "github.com/hashicorp/go-hclog"
	metrics "github.com/hashicorp/go-metrics/compat"
	"github.com/openbao/openbao/v2/internal/helper/namespace"
	"github.com/openbao/openbao/v2/internal/physical/raft"
	"github.com/openbao/openbao/v2/internal/vault/barrier"
	"github.com/openbao/openbao/sdk/v2/logical"
	"github.com/openbao/openbao/sdk/v2/physical"
	"github.com/openbao/openbao/sdk/v2/physical/file"
	"github.com/openbao/openbao/sdk/v2/physical/inmem"
)

// kvAPI is the common surface of physical.Backend and logical.Storage.
type kvAPI interface {
	Get(key string) ([]byte, bool, error)
	Put(key string, v []byte) error
	Delete(key string) error
	List(prefix string) ([]string, error)
	ListPage(prefix, after string, limit int) ([]string, error)
}

type txAPI interface {
	kvAPI
	Commit() error
	Rollback() error
}

var bg = context.Background()

type physKV struct{ b physical.Backend }

func (p physKV) Get(k string) ([]byte, bool, error) {
	e, err := p.b.Get(bg, k)
	if err != nil || e == nil {
		return nil, false, err
	}
	return e.Value, true, nil
}
func (p physKV) Put(k string, v []byte) error { return p.b.Put(bg, &physical.Entry{Key: k, Value: v}) }
func (p physKV) Delete(k string) error        { return p.b.Delete(bg, k) }
func (p physKV) List(pr string) ([]string, error) {
	return p.b.List(bg, pr)
}
func (p physKV) ListPage(pr, a string, l int) ([]string, error) { return p.b.ListPage(bg, pr, a, l) }

type physTx struct {
	physKV
	t physical.Transaction
}

func (p physTx) Commit() error   { return p.t.Commit(bg) }
func (p physTx) Rollback() error { return p.t.Rollback(bg) }

type logKV struct{ s logical.Storage }

func (p logKV) Get(k string) ([]byte, bool, error) {
	e, err := p.s.Get(bg, k)
	if err != nil || e == nil {
		return nil, false, err
	}
	return e.Value, true, nil
}
func (p logKV) Put(k string, v []byte) error { return p.s.Put(bg, &logical.StorageEntry{Key: k, Value: v}) }
func (p logKV) Delete(k string) error        { return p.s.Delete(bg, k) }
func (p logKV) List(pr string) ([]string, error) {
	return p.s.List(bg, pr)
}
func (p logKV) ListPage(pr, a string, l int) ([]string, error) { return p.s.ListPage(bg, pr, a, l) }

type logTx struct {
	logKV
	t logical.Transaction
}

func (p logTx) Commit() error   { return p.t.Commit(bg) }
func (p logTx) Rollback() error { return p.t.Rollback(bg) }

// Stack is a storage stack under test: a bottom backend and layers above it.
type Stack struct {
	Name    string
	Layers  []string
	KV      kvAPI
	Begin   func(readOnly bool) (txAPI, error) // nil: not transactional
	Storage logical.Storage                    // non-nil when the top is a logical.Storage
	Prefix  string                             // total key prefix the top adds at the bottom
	Bottom  physical.Backend
	Disk    *Disk // non-nil when the bottom is the simulated disk
	Reopen  func() error
	Close   func()
	Barrier barrier.SecurityBarrier
	Cache   physical.ToggleablePurgemonster

	barrierKey []byte
	raft       *RaftH
}

type StackOpts struct {
	Bottom    string // simdisk | simdisk-plain | inmem | inmem-plain | file | fsm | raft
	Encoding  bool
	CacheSize int // 0: none
	PhysView  string
	Barrier   bool
	Views     []string // nested logical views (each ends in /)
	Dir       string   // temp dir for file / fsm
}

func (o StackOpts) String() string {
	l := []string{o.Bottom}
	if o.Encoding {
		l = append(l, "encoding")
	}
	if o.CacheSize > 0 {
		l = append(l, fmt.Sprintf("cache(%d)", o.CacheSize))
	}
	if o.PhysView != "" {
		l = append(l, "physview("+o.PhysView+")")
	}
	if o.Barrier {
		l = append(l, "barrier")
	}
	for _, v := range o.Views {
		l = append(l, "view("+v+")")
	}
	return strings.Join(l, ">")
}

// BuildStack assembles the layers in production order:
// bottom -> key-encoding -> cache -> physical view -> barrier -> views.
func BuildStack(s *Sim, o StackOpts) (*Stack, error) {
	st := &Stack{Name: o.String()}
	logger := log.NewNullLogger()
	var bottom physical.Backend
	switch o.Bottom {
	case "simdisk":
		st.Disk = NewDisk(s)
		bottom = st.Disk
	case "simdisk-plain":
		st.Disk = NewDisk(s)
		bottom = PlainDisk{st.Disk}
	case "inmem":
		b, err := inmem.NewInmem(nil, logger)
		if err != nil {
			return nil, err
		}
		bottom = b
	case "inmem-plain":
		b, err := inmem.NewInmem(map[string]string{"disable_transactions": "true"}, logger)
		if err != nil {
			return nil, err
		}
		bottom = b
	case "file":
		b, err := file.NewFileBackend(map[string]string{"path": o.Dir}, logger)
		if err != nil {
			return nil, err
		}
		bottom = b
	case "fsm":
		f, err := raft.NewFSM(o.Dir, "node1", logger)
		if err != nil {
			return nil, err
		}
		bottom = f
		st.Close = func() { f.Close() }
	case "raft": // the real RaftBackend, single node; needs a bubble
		h, err := BootRaft(s)
		if err != nil {
			return nil, err
		}
		st.raft = h
		bottom = h.B
		st.Close = h.Close
	default:
		return nil, fmt.Errorf("unknown bottom %q", o.Bottom)
	}
	st.Bottom = bottom
	switch o.Bottom {
	case "file":
		st.Reopen = func() error {
			b, err := file.NewFileBackend(map[string]string{"path": o.Dir}, logger)
			if err != nil {
				return err
			}
			st.Bottom = b
			return layer(st, b, o)
		}
	case "fsm":
		st.Reopen = func() error {
			st.Bottom.(*raft.FSM).Close()
			f, err := raft.NewFSM(o.Dir, "node1", logger)
			if err != nil {
				return err
			}
			st.Bottom = f
			st.Close = func() { f.Close() }
			return layer(st, f, o)
		}
	case "raft":
		st.Reopen = func() error {
			process := s.Tape.Pick(2) == 1
			s.Faults[map[bool]string{true: "raft-process-restart", false: "raft-cluster-restart"}[process]]++
			if err := st.raft.Restart(process); err != nil {
				return err
			}
			st.Bottom = st.raft.B
			return layer(st, st.Bottom, o)
		}
	default:
		// "restart": fresh layers (cache dropped, barrier unsealed again) over the same bottom
		st.Reopen = func() error { return layer(st, st.Bottom, o) }
	}
	return st, layer(st, bottom, o)
}

// layer (re)builds everything above the bottom; used again after a reopen.
func layer(st *Stack, bottom physical.Backend, o StackOpts) error {
	logger := log.NewNullLogger()
	cur := bottom
	st.Prefix = ""
	if o.Encoding {
		cur = physical.NewStorageEncoding(cur)
	}
	if o.CacheSize > 0 {
		c := physical.NewCache(cur, o.CacheSize, logger, &metrics.BlackholeSink{})
		c.SetEnabled(true)
		st.Cache = c
		cur = c
	}
	if o.PhysView != "" {
		cur = physical.NewView(cur, o.PhysView)
		st.Prefix += o.PhysView
	}
	if !o.Barrier {
		st.KV = physKV{cur}
		st.Begin = nil
		if tb, ok := cur.(physical.TransactionalBackend); ok {
			st.Begin = func(ro bool) (txAPI, error) {
				var t physical.Transaction
				var err error
				if ro {
					t, err = tb.BeginReadOnlyTx(bg)
				} else {
					t, err = tb.BeginTx(bg)
				}
				if err != nil {
					return nil, err
				}
				return physTx{physKV{t}, t}, nil
			}
		}
		return nil
	}
	b := barrier.NewAESGCMBarrier(cur, namespace.RootNamespace)
	ctx := namespace.RootContext(bg)
	if st.Barrier == nil {
		key, err := b.GenerateKey()
		if err != nil {
			return err
		}
		_ = crand.Reader
		if err := b.Initialize(ctx, key, nil); err != nil {
			return fmt.Errorf("barrier init: %w", err)
		}
		if err := b.Unseal(ctx, key); err != nil {
			return fmt.Errorf("barrier unseal: %w", err)
		}
		st.barrierKey = key
	} else {
		if err := b.Unseal(ctx, st.barrierKey); err != nil {
			return fmt.Errorf("barrier unseal (reopen): %w", err)
		}
	}
	st.Barrier = b
	var top logical.Storage = b
	for _, v := range o.Views {
		top = barrier.NewView(top, v)
		st.Prefix += v
	}
	st.Storage = top
	st.KV = logKV{top}
	st.Begin = nil
	if ts, ok := top.(logical.TransactionalStorage); ok {
		st.Begin = func(ro bool) (txAPI, error) {
			var t logical.Transaction
			var err error
			if ro {
				t, err = ts.BeginReadOnlyTx(bg)
			} else {
				t, err = ts.BeginTx(bg)
			}
			if err != nil {
				return nil, err
			}
			return logTx{logKV{t}, t}, nil
		}
	}
	return nil
}

func mkTemp(tag string) string {
	d, err := os.MkdirTemp("", "verif-"+tag+"-")
	if err != nil {
		panic(err)
	}
	return d
}
