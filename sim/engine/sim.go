package verifsim

import (
	"bytes"
	"crypto/sha256"
	"encoding/hex"
	"fmt"
	"os"
	"regexp"
	"runtime"
	"runtime/debug"
	"strings"
	"sort"
	"strconv"
	"sync"
	"sync/atomic"
	"testing/synctest"
	"time"

	"github.com/openbao/openbao/sdk/v2/helper/simsync"
)

// Fault is what the scheduler injects when it releases a parked operation.
type Fault int

const (
	FaultNone       Fault = iota
	FaultErrNA            // storage error, operation not applied
	FaultErrApplied       // lost acknowledgement: applied, caller sees an error
	FaultCtxCancel        // request context cancelled at this point
	FaultPanic            // audit device panics
)

func (f Fault) String() string {
	switch f {
	case FaultNone:
		return ""
	case FaultErrNA:
		return "err-na"
	case FaultErrApplied:
		return "err-applied"
	case FaultCtxCancel:
		return "ctx-cancel"
	case FaultPanic:
		return "panic"
	}
	return "?"
}

// Task is a unit the scheduler chooses between: a client goroutine named by
// the workload, or a system goroutine named by its first parked operation.
type Task struct {
	gid     uint64
	Name    string
	Client  bool
	Done    bool
	Ops     int // operations released so far
	FailAt  int // 1-based index of the faultable op to fail (0: none)
	FailAs  Fault
	faultN  int // faultable ops seen so far
	FaultDesc string // descriptor of the operation that received the FailAt fault
	Crashed bool
}

type parked struct {
	task      *Task
	kind      string // disk | lock | start | audit | backend | fsm | yield
	desc      string
	faultable bool
	ch        chan Fault
	w         *simsync.Waiter
}

// Violation is a property violation found by an oracle.
type Violation struct {
	Property  string         `json:"property"`
	Class     string         `json:"class"`
	Signature map[string]any `json:"signature,omitempty"`
	Message   string         `json:"message"`
}

// Sim is one simulated run: the tape, the scheduler, the parked set, the
// decision log. Exactly one Sim is active per process at a time.
type Sim struct {
	Tape *Tape
	Prop string // property id of the running scenario

	controlled atomic.Bool
	active     atomic.Uint64 // goroutine id of the task released last
	// YieldForeign enables "yield before an uncontended lock" for goroutines
	// the scheduler did not release (timer-woken / spawned). Off by default:
	// measured, it doubles the number of steps and - because such goroutines
	// can only be named by call site + arrival counter - does not reduce the
	// residual nondeterminism of timer ties (DESIGN.md 10.5).
	YieldForeign bool
	// YieldOnRelease makes the release of a contended lock a scheduling point
	// (swarm option): without it the releaser always runs on to its next
	// storage operation before a waiter gets the lock, which hides every
	// check-then-act window that opens right after an Unlock.
	YieldOnRelease bool
	// YieldOnAcquirePermille: the task the scheduler released parks before it
	// takes a FREE lock in about this share of its lock acquisitions (at most
	// YieldAcquireLeft times per run): two statements with nothing but an
	// uncontended lock between them ("open the snapshot, then read the applied
	// index") are otherwise atomic to the scheduler. Which acquisitions yield
	// is a pure function of AcquireSeed (drawn once from the tape) and the
	// task's acquisition count - no tape cell per acquisition.
	YieldOnAcquirePermille int
	YieldAcquireLeft       int
	AcquireSeed            uint64
	acqN                   uint64
	mu         sync.Mutex // protects the fields below; never held while parked
	parkedOps  []*parked
	tasks      map[uint64]*Task
	byName     map[string]*Task
	sysCount   map[string]int

	cur      *Task // task released last
	Steps    int
	MaxSteps int
	Trunc    bool
	Stuck    string

	// fault policy
	FaultPermille int // chance per faultable op
	MaxFaults     int
	FaultKinds    []Fault
	faultsLeft    int
	SwitchBias    int // permille chance to switch task when the current one is runnable (default 500)
	// StallKind/StallPermille: a chosen operation of this kind is put back
	// with the given probability when something else is runnable ("stall"
	// fault: e.g. the Raft state machine lagging several entries behind).
	StallKind     string
	StallPermille int
	// Freeze ("long stall"): with FreezePermille chance per decision the task
	// whose operation was chosen stays parked where it is for the next 8-55
	// decisions (as long as anything else can run). "A pauses between two of its steps, B
	// runs to completion, A resumes" is the shape of most atomicity violations;
	// a memoryless scheduler reaches it with probability that decays
	// geometrically in the length of B.
	FreezePermille int
	FreezesLeft    int
	frozen         *Task
	frozenLeft     int
	// TickPerStep advances the simulated clock by this much before every
	// scheduling decision (real clocks never stand still between two requests;
	// code comparing timestamps with Before/After needs that).
	TickPerStep time.Duration

	Faults map[string]int // fired, by kind
	Probes map[string]int

	hash     []byte
	shape    []byte            // hash of the decision log with run-specific identifiers canonicalised
	idents   map[string]string // identifier -> "$n" in order of first appearance
	Trace    []string
	traceCap int
	SimStart time.Time
	simElapsed time.Duration

	Viol *Violation
	// Soft violations do not stop the run (used for defects that would
	// otherwise mask everything behind them); reported like any other.
	Soft []*Violation

	StepHook func()
	stepCh   atomic.Int64 // progress counter for the watchdog
}

var curSim atomic.Pointer[Sim]

func current() *Sim { return curSim.Load() }

func NewSim(t *Tape) *Sim {
	s := &Sim{
		Tape:       t,
		tasks:      map[uint64]*Task{},
		byName:     map[string]*Task{},
		sysCount:   map[string]int{},
		MaxSteps:   20000,
		Faults:     map[string]int{},
		Probes:     map[string]int{},
		traceCap:   traceCapFromEnv(),
		SwitchBias: 500,
		hash:       make([]byte, 32),
		shape:      make([]byte, 32),
		idents:     map[string]string{},
	}
	return s
}

// Install makes s the process-wide simulator (locks, disk gates).
func (s *Sim) Install() {
	curSim.Store(s)
	simsync.SetController(s)
	s.SimStart = time.Now()
}

func (s *Sim) Uninstall() {
	s.simElapsed = time.Since(s.SimStart)
	s.PassThrough()
	simsync.SetController(nil)
	curSim.Store(nil)
}

// callerSite names the first frame outside the lock plumbing (function name
// only: stable across processes, unlike addresses or goroutine ids).
func callerSite() string {
	var pcs [12]uintptr
	n := runtime.Callers(3, pcs[:])
	frames := runtime.CallersFrames(pcs[:n])
	for {
		f, more := frames.Next()
		fn := f.Function
		if fn != "" && !strings.Contains(fn, "/simsync.") && !strings.Contains(fn, "/verifsim.") && !strings.Contains(fn, "/locksutil.") && !strings.Contains(fn, "/locking.") && !strings.HasPrefix(fn, "sync.") {
			if i := strings.LastIndex(fn, "/"); i >= 0 {
				fn = fn[i+1:]
			}
			return fn
		}
		if !more {
			return "?"
		}
	}
}

func traceCapFromEnv() int {
	if v, err := strconv.Atoi(os.Getenv("VERIF_TRACECAP")); err == nil && v > 0 {
		return v
	}
	return 400
}

func goid() uint64 {
	var buf [64]byte
	n := runtime.Stack(buf[:], false)
	// "goroutine 123 ["
	b := buf[10:n]
	i := bytes.IndexByte(b, ' ')
	if i < 0 {
		return 0
	}
	id, _ := strconv.ParseUint(string(b[:i]), 10, 64)
	return id
}

func (s *Sim) Probe(name string) {
	s.mu.Lock()
	s.Probes[name]++
	s.mu.Unlock()
}

func (s *Sim) ProbeN(name string, n int) {
	s.mu.Lock()
	s.Probes[name] += n
	s.mu.Unlock()
}

// Controlled implements simsync.Controller.
func (s *Sim) Controlled() bool { return s.controlled.Load() }

// taskFor returns the task of the calling goroutine, naming a system task on
// its first parked operation. Caller holds s.mu.
func (s *Sim) taskFor(id uint64, kind, desc string) *Task {
	if t, ok := s.tasks[id]; ok {
		return t
	}
	base := "sys:" + kind + ":" + desc
	n := s.sysCount[base]
	s.sysCount[base] = n + 1
	t := &Task{Name: base + "#" + strconv.Itoa(n), gid: id}
	s.tasks[id] = t
	s.byName[t.Name] = t
	return t
}

// Yield implements simsync.Controller: a goroutine other than the one the
// scheduler released last (woken by a timer, spawned, or woken through a
// channel) parks before it takes even a free lock, so that its position in
// the interleaving is decided by the tape and not by the Go runtime.
func (s *Sim) Yield() bool {
	if s.YieldOnAcquirePermille > 0 && s.YieldAcquireLeft > 0 {
		if a := s.active.Load(); a != 0 && goid() == a {
			s.acqN++
			x := s.AcquireSeed + s.acqN*0x9E3779B97F4A7C15
			x ^= x >> 30
			x *= 0xBF58476D1CE4E5B9
			x ^= x >> 27
			x *= 0x94D049BB133111EB
			x ^= x >> 31
			if int(x%1000) < s.YieldOnAcquirePermille {
				s.YieldAcquireLeft--
				s.Faults["yield-on-acquire"]++
				return true
			}
		}
	}
	if !s.YieldForeign {
		return false
	}
	a := s.active.Load()
	return a != 0 && goid() != a
}

// Released implements simsync.Controller: the calling goroutine has released a
// lock that others wait for. With YieldOnRelease it parks, so that the
// scheduler decides whether it or a waiter proceeds first.
func (s *Sim) Released() {
	if !s.YieldOnRelease {
		return
	}
	s.Gate("yield", "released "+callerSite(), false)
}

// Enqueue implements simsync.Controller: a goroutine is about to wait for a lock.
func (s *Sim) Enqueue(w *simsync.Waiter) {
	id := goid()
	s.mu.Lock()
	kind := "rlock"
	if w.Write() {
		kind = "lock"
	}
	site := callerSite()
	t := s.taskFor(id, "lock", site)
	p := &parked{task: t, kind: "lock", desc: kind + " " + site, w: w}
	s.parkedOps = append(s.parkedOps, p)
	s.mu.Unlock()
}

// Gate is a parking point. In pass-through mode it returns immediately.
func (s *Sim) Gate(kind, desc string, faultable bool) Fault {
	if !s.controlled.Load() {
		return FaultNone
	}
	id := goid()
	ch := make(chan Fault, 1)
	s.mu.Lock()
	if !s.controlled.Load() {
		s.mu.Unlock()
		return FaultNone
	}
	t := s.taskFor(id, kind, desc)
	p := &parked{task: t, kind: kind, desc: desc, faultable: faultable, ch: ch}
	s.parkedOps = append(s.parkedOps, p)
	s.mu.Unlock()
	return <-ch
}

// Go starts a client task. It begins parked on a start gate so that two
// tasks never race for an uncontended lock before the scheduler has spoken.
func (s *Sim) Go(name string, f func()) *Task {
	t := &Task{Name: name, Client: true}
	s.mu.Lock()
	s.byName[name] = t
	s.mu.Unlock()
	go func() {
		id := goid()
		t.gid = id
		s.mu.Lock()
		s.tasks[id] = t
		s.mu.Unlock()
		defer func() {
			if r := recover(); r != nil {
				// a panic inside a client request is the product's (or the
				// scenario's) and is reported, not allowed to kill the worker
				st := string(debug.Stack())
				where := "?"
				for _, l := range strings.Split(st, "\n") {
					if strings.Contains(l, "/repo/") && !strings.Contains(l, "/verifsim/") {
						where = strings.TrimSpace(l)
						if i := strings.Index(where, " +0x"); i > 0 {
							where = where[:i]
						}
						break
					}
				}
				s.Violate(s.Prop, "panic-in-request", map[string]any{"where": where}, "client task %s panicked: %v\n%s", name, r, st)
			}
			s.mu.Lock()
			t.Done = true
			s.mu.Unlock()
		}()
		s.Gate("start", "", false)
		f()
	}()
	return t
}

// TaskByName returns a known task (client or already-named system task).
func (s *Sim) TaskByName(n string) *Task {
	s.mu.Lock()
	defer s.mu.Unlock()
	return s.byName[n]
}

// SetControlled switches to controlled mode after letting everything settle.
func (s *Sim) SetControlled() {
	synctest.Wait()
	s.controlled.Store(true)
}

// PassThrough leaves controlled mode and releases everything that is parked.
func (s *Sim) PassThrough() {
	s.controlled.Store(false)
	s.active.Store(0)
	s.mu.Lock()
	ps := s.parkedOps
	s.parkedOps = nil
	s.mu.Unlock()
	for _, p := range ps {
		if p.w != nil {
			p.w.Kick()
		} else {
			p.ch <- FaultNone
		}
	}
}

func (s *Sim) clientsDone() bool {
	s.mu.Lock()
	defer s.mu.Unlock()
	for _, t := range s.byName {
		if t.Client && !t.Done {
			return false
		}
	}
	return true
}

// runnable returns the parked operations that can proceed, in canonical order.
func (s *Sim) runnable() []*parked {
	s.mu.Lock()
	var out []*parked
	for _, p := range s.parkedOps {
		if p.w != nil && !p.w.Grantable() {
			continue
		}
		out = append(out, p)
	}
	s.mu.Unlock()
	sort.SliceStable(out, func(i, j int) bool {
		if out[i].task.Name != out[j].task.Name {
			return out[i].task.Name < out[j].task.Name
		}
		if out[i].kind != out[j].kind {
			return out[i].kind < out[j].kind
		}
		return out[i].desc < out[j].desc
	})
	return out
}

func (s *Sim) removeParked(p *parked) {
	s.mu.Lock()
	for i, x := range s.parkedOps {
		if x == p {
			s.parkedOps = append(s.parkedOps[:i], s.parkedOps[i+1:]...)
			break
		}
	}
	s.mu.Unlock()
}

var identRe = regexp.MustCompile(`[0-9a-f]{8}-[0-9a-f]{4}-[0-9a-f]{4}-[0-9a-f]{4}-[0-9a-f]{12}|[0-9A-Za-z_+=-]{20,}|[0-9a-f]{2}(-[0-9a-f]{2}){7,}`)

func (s *Sim) record(line string) {
	h := sha256.New()
	h.Write(s.hash)
	h.Write([]byte(line))
	s.hash = h.Sum(nil)
	// shape: the same log with random identifiers (token ids, uuids, serials)
	// replaced by their order of first appearance, so that two runs that
	// differ only in random identifiers count as the same interleaving.
	norm := identRe.ReplaceAllStringFunc(line, func(m string) string {
		if v, ok := s.idents[m]; ok {
			return v
		}
		v := "$" + strconv.Itoa(len(s.idents))
		s.idents[m] = v
		return v
	})
	h = sha256.New()
	h.Write(s.shape)
	h.Write([]byte(norm))
	s.shape = h.Sum(nil)
	if len(s.Trace) < s.traceCap {
		s.Trace = append(s.Trace, line)
	}
}

// Note adds a workload-level event to the decision log (and hash).
func (s *Sim) Note(format string, a ...any) {
	s.mu.Lock()
	s.record(fmt.Sprintf("%d note ", s.Steps) + fmt.Sprintf(format, a...))
	s.mu.Unlock()
}

func (s *Sim) Hash() string { return hex.EncodeToString(s.hash) }

// Shape is the hash of the decision log modulo random identifiers.
func (s *Sim) Shape() string { return hex.EncodeToString(s.shape[:12]) }

func (s *Sim) decideFault(p *parked) Fault {
	if !p.faultable {
		return FaultNone
	}
	t := p.task
	t.faultN++
	if t.FailAt > 0 && t.faultN == t.FailAt {
		t.FaultDesc = p.desc
		f := t.FailAs
		if f == FaultNone {
			f = FaultErrNA
		}
		return f
	}
	if s.FaultPermille > 0 && s.faultsLeft > 0 && len(s.FaultKinds) > 0 {
		if s.Tape.Chance(s.FaultPermille) {
			s.faultsLeft--
			return s.FaultKinds[s.Tape.Pick(len(s.FaultKinds))]
		}
	}
	return FaultNone
}

// SwarmFreeze draws the long-stall configuration of a run (off in half of them).
func (s *Sim) SwarmFreeze() {
	s.YieldOnRelease = s.Tape.Pick(2) == 1
	switch s.Tape.Pick(4) {
	case 2:
		s.FreezePermille, s.FreezesLeft = 25, 1+s.Tape.Pick(3)
	case 3:
		s.FreezePermille, s.FreezesLeft = 80, 1+s.Tape.Pick(2)
	default:
		s.FreezePermille, s.FreezesLeft = 0, 0
	}
	// a quarter of the runs: the released task also parks before a few of its
	// uncontended lock acquisitions
	if s.Tape.Pick(4) == 3 {
		s.YieldOnAcquirePermille, s.YieldAcquireLeft = 30, 6
		s.AcquireSeed = s.Tape.SubSeed()
	} else {
		s.YieldOnAcquirePermille, s.YieldAcquireLeft = 0, 0
	}
}

// SetFaults configures random fault injection for the following Run calls.
func (s *Sim) SetFaults(permille, max int, kinds ...Fault) {
	s.FaultPermille = permille
	s.MaxFaults = max
	s.faultsLeft = max
	s.FaultKinds = kinds
}

// Step releases one runnable parked operation chosen from the tape. It
// returns false when nothing is runnable.
func (s *Sim) Step() bool {
	if s.TickPerStep > 0 {
		time.Sleep(s.TickPerStep)
	}
	synctest.Wait()
	s.stepCh.Add(1)
	P := s.runnable()
	if len(P) == 0 {
		return false
	}
	if s.frozen != nil {
		var others []*parked
		for _, q := range P {
			if q.task != s.frozen {
				others = append(others, q)
			}
		}
		if len(others) > 0 && s.frozenLeft > 0 {
			P = others
			s.frozenLeft--
		} else {
			s.frozen = nil
		}
	}
	idx := -1
	if s.cur != nil {
		for i, p := range P {
			if p.task == s.cur {
				idx = i
				break
			}
		}
	}
	if len(P) > 1 {
		if idx >= 0 {
			if s.Tape.Chance(s.SwitchBias) {
				idx = s.Tape.Pick(len(P))
			}
		} else {
			idx = s.Tape.Pick(len(P))
		}
	} else {
		idx = 0
	}
	p := P[idx]
	if s.StallKind != "" && p.kind == s.StallKind && len(P) > 1 && s.Tape.Chance(s.StallPermille) {
		var others []*parked
		for _, q := range P {
			if q.kind != s.StallKind {
				others = append(others, q)
			}
		}
		if len(others) > 0 {
			p = others[s.Tape.Pick(len(others))]
			s.Faults["stall"]++
		}
	}
	// long stall: the chosen operation is NOT released; its task stays parked
	// right where it is while the others run
	freezeP := s.FreezePermille
	if strings.HasPrefix(p.desc, "ret get") || strings.HasPrefix(p.desc, "ret tx-get") || strings.HasPrefix(p.desc, "ret list") {
		freezeP *= 4 // a value was read: the classic check-then-act window opens here
	}
	if freezeP > 0 && s.FreezesLeft > 0 && s.frozen == nil && len(P) > 1 && s.Tape.Chance(freezeP) {
		var others []*parked
		for _, q := range P {
			if q.task != p.task {
				others = append(others, q)
			}
		}
		if len(others) > 0 {
			s.frozen, s.frozenLeft = p.task, 8+s.Tape.Pick(48)
			s.FreezesLeft--
			s.Faults["long-stall"]++
			p = others[s.Tape.Pick(len(others))]
		}
	}
	f := s.decideFault(p)
	s.removeParked(p)
	s.mu.Lock()
	s.Steps++
	p.task.Ops++
	line := fmt.Sprintf("%d %s %s %s", s.Steps, p.task.Name, p.kind, p.desc)
	if f != FaultNone {
		line += " !" + f.String()
		s.Faults[f.String()]++
	}
	s.record(line)
	s.mu.Unlock()
	s.cur = p.task
	s.active.Store(p.task.gid)
	if p.w != nil {
		if !p.w.Grant() {
			panic("verifsim: grantable waiter could not be granted")
		}
	} else {
		p.ch <- f
	}
	if s.StepHook != nil {
		synctest.Wait()
		s.StepHook()
	}
	return true
}

// Run schedules until every client task has finished and no operation is
// parked, the step cap is hit, or a violation was recorded. When clients are
// blocked on timers only, simulated time is advanced in growing steps.
func (s *Sim) Run() {
	idle := time.Duration(0)
	step := 10 * time.Millisecond
	for s.Viol == nil {
		if s.Steps >= s.MaxSteps {
			s.Trunc = true
			return
		}
		if s.Step() {
			idle, step = 0, 10*time.Millisecond
			continue
		}
		if s.clientsDone() {
			return
		}
		// nothing runnable, clients outstanding: they wait for a timer (or
		// are deadlocked). Advance the clock.
		if idle > 30*time.Minute {
			s.Stuck = s.describeStuck()
			s.Trunc = true
			return
		}
		time.Sleep(step)
		idle += step
		if step < time.Minute {
			step *= 4
		}
	}
}

// RunClients schedules until every client task has finished; system tasks
// (e.g. the lease restore after an unseal) may still be parked afterwards.
func (s *Sim) RunClients() {
	idle := 0
	for s.Viol == nil && !s.clientsDone() {
		if s.Steps >= s.MaxSteps {
			s.Trunc = true
			return
		}
		if s.Step() {
			idle = 0
			continue
		}
		time.Sleep(10 * time.Millisecond)
		if idle++; idle > 100000 {
			s.Stuck = s.describeStuck()
			s.Trunc = true
			return
		}
	}
}

// Drain runs system tasks until nothing is parked, advancing the simulated
// clock by `slice` up to `total` so that queued/lazy work (revocations,
// restore) gets done. It never injects random faults.
func (s *Sim) Drain(total, slice time.Duration) {
	savedP := s.FaultPermille
	s.FaultPermille = 0
	defer func() { s.FaultPermille = savedP }()
	for elapsed := time.Duration(0); ; {
		for s.Viol == nil && s.Steps < s.MaxSteps && s.Step() {
		}
		if s.Steps >= s.MaxSteps {
			s.Trunc = true
			return
		}
		if elapsed >= total || s.Viol != nil {
			return
		}
		time.Sleep(slice)
		elapsed += slice
	}
}

// Advance moves the simulated clock (timers fire; woken goroutines run until
// they park).
func (s *Sim) Advance(d time.Duration) {
	s.Note("clock +%s", d)
	time.Sleep(d)
	synctest.Wait()
}

func (s *Sim) describeStuck() string {
	s.mu.Lock()
	defer s.mu.Unlock()
	out := "stuck: clients outstanding, nothing runnable;"
	for _, t := range s.byName {
		if t.Client && !t.Done {
			out += " " + t.Name
		}
	}
	out += fmt.Sprintf("; %d parked (non-grantable lock waiters)", len(s.parkedOps))
	return out
}

// Violate records the first violation of the run.
func (s *Sim) Violate(prop, class string, sig map[string]any, format string, a ...any) {
	s.mu.Lock()
	defer s.mu.Unlock()
	if s.Viol != nil {
		return
	}
	s.Viol = &Violation{Property: prop, Class: class, Signature: sig, Message: fmt.Sprintf(format, a...)}
	s.record("VIOLATION " + class)
}

// SimElapsed is the simulated time covered so far.
func (s *Sim) SimElapsed() time.Duration { return time.Since(s.SimStart) }

// ViolateSoft records a violation without ending the run; duplicates (same
// class and signature) are recorded once.
func (s *Sim) ViolateSoft(prop, class string, sig map[string]any, format string, a ...any) {
	s.mu.Lock()
	defer s.mu.Unlock()
	key := class + fmt.Sprint(sig)
	for _, v := range s.Soft {
		if v.Class+fmt.Sprint(v.Signature) == key {
			return
		}
	}
	s.Soft = append(s.Soft, &Violation{Property: prop, Class: class, Signature: sig, Message: fmt.Sprintf(format, a...)})
	s.record("SOFT-VIOLATION " + class)
}
