package verifsim

import (
	"bytes"
	"context"
	"errors"
	"fmt"
	"os"
	"sort"
	"strings"
	"sync/atomic"
	"testing/synctest"
	"time"

	log "github.com/hashicorp/go-hclog"
	hraft "github.com/hashicorp/raft"
	"github.com/openbao/openbao/sdk/v2/physical"
	"github.com/openbao/openbao/v2/internal/physical/raft"
)

// RaftH is a real single-node RaftBackend (hashicorp/raft, in-memory
// transport, bbolt stores in a temp dir) running inside the bubble, with the
// state machine's ApplyBatch gated by the scheduler.
type RaftH struct {
	B      *raft.RaftBackend
	Dir    string
	gateOn atomic.Bool
	sim    *Sim
}

func raftLogger() log.Logger {
	if os.Getenv("VERIF_LOG") != "" {
		return log.New(&log.LoggerOptions{Level: log.Trace, Output: os.Stderr})
	}
	return log.NewNullLogger()
}

func raftConf(dir string) map[string]string {
	return map[string]string{
		"path":          dir,
		"node_id":       "node1",
		"trailing_logs": "10000",
		// keep raft's own snapshotting out of the way
		"snapshot_threshold": "1000000",
	}
}

// Restart stops the node and brings it back on the same directory: either the
// way seal / unseal does (cluster torn down and set up again on the same
// backend object, the FSM stays open) or the way a process restart does (all
// files closed, a new backend opened on the directory, the log replayed).
func (h *RaftH) Restart(process bool) error {
	h.gateOn.Store(false)
	if err := h.B.TeardownCluster(nil); err != nil {
		return fmt.Errorf("teardown: %w", err)
	}
	if process {
		if err := h.B.Close(); err != nil {
			return fmt.Errorf("close: %w", err)
		}
		braw, err := raft.NewRaftBackend(raftConf(h.Dir), raftLogger())
		if err != nil {
			return fmt.Errorf("reopen: %w", err)
		}
		h.B = braw.(*raft.RaftBackend)
	}
	if err := h.B.SetupCluster(context.Background(), raft.SetupOpts{StartAsLeader: true}); err != nil {
		return fmt.Errorf("setup: %w", err)
	}
	h.B.DisableAutopilot()
	// everything acknowledged before the restart is in the log: wait (in
	// simulated time) until the state machine has caught up with it
	for i := 0; i < 2000 && raft.VerifFSMIndex(raft.VerifFSM(h.B)) < raft.VerifRaft(h.B).LastIndex(); i++ {
		time.Sleep(10 * time.Millisecond)
	}
	synctest.Wait()
	h.B.SetFSMApplyCallback(func() {
		if h.gateOn.Load() {
			h.sim.Gate("fsm", "apply", false)
		}
	})
	return nil
}

func BootRaft(s *Sim) (*RaftH, error) {
	dir := mkTemp("raft")
	conf := raftConf(dir)
	braw, err := raft.NewRaftBackend(conf, raftLogger())
	if err != nil {
		os.RemoveAll(dir)
		return nil, err
	}
	b := braw.(*raft.RaftBackend)
	if err := b.Bootstrap([]raft.Peer{{ID: b.NodeID(), Address: b.NodeID()}}); err != nil {
		os.RemoveAll(dir)
		return nil, err
	}
	if err := b.SetupCluster(context.Background(), raft.SetupOpts{StartAsLeader: true}); err != nil {
		os.RemoveAll(dir)
		return nil, err
	}
	b.DisableAutopilot()
	h := &RaftH{B: b, Dir: dir, sim: s}
	// wait (in simulated time) until the bootstrap entries are applied
	for i := 0; i < 1000 && raft.VerifFSMIndex(raft.VerifFSM(b)) < 2; i++ {
		time.Sleep(10 * time.Millisecond)
	}
	synctest.Wait()
	b.SetFSMApplyCallback(func() {
		if h.gateOn.Load() {
			s.Gate("fsm", "apply", false)
		}
	})
	return h, nil
}

func (h *RaftH) Close() {
	h.gateOn.Store(false)
	if h.sim.Viol != nil || h.sim.Trunc {
		// client tasks may have stopped inside an open transaction (which
		// holds the FSM read lock): do not try to tear down, just leak
		os.RemoveAll(h.Dir)
		return
	}
	func() {
		defer func() { recover() }()
		h.B.TeardownCluster(nil)
	}()
	func() {
		defer func() { recover() }()
		raft.VerifFSM(h.B).Close()
	}()
	os.RemoveAll(h.Dir)
}

// ---- workload ----

type rProposal struct {
	seq    int
	kind   string // put | del | tx
	key    string
	val    []byte
	txn    *rTxn
	err    error
	done   bool
	writes map[string][]byte
}

type rTxn struct {
	id            int
	ro            bool
	ops           []obs
	beginIdx      uint64 // FSM index the transaction started at
	raftLastIdx   uint64 // raft's last log index at begin (> beginIdx: FSM was lagging)
	finishIdx     uint64 // FSM index when it finished
	idxAfterBegin uint64 // FSM index right after BeginTx returned (> beginIdx: entries were applied while it ran)
	writes        int
	own           map[string][]byte
	committed     bool
	rolledBack    bool
}

type rRead struct {
	key    string
	val    []byte
	found  bool
	fsmIdx uint64
	// FSM index right after the read returned
	fsmIdxAfter uint64
}

// RaftRun is everything a Raft workload run recorded.
type RaftRun struct {
	Proposals []*rProposal
	Txns      []*rTxn
	Reads     []rRead
	Hist      []string
	Logs      []*hraft.Log // command + configuration entries, index order
	MaxLag    uint64
}

type rJobOp struct {
	kind  string // get put del list page
	key   string
	after string
	limit int
	big   bool // put: value above the chunking threshold
}

type rJob struct {
	txn      bool
	ro       bool
	rollback bool
	ops      []rJobOp
}

func genRaftJobs(tp *Tape, n int) []rJob {
	var jobs []rJob
	for i := 0; i < n; i++ {
		if tp.Pick(5) < 2 { // plain op
			k := c08Keys[tp.Pick(len(c08Keys))]
			op := rJobOp{kind: []string{"put", "put", "del", "get"}[tp.Pick(4)], key: k}
			if op.kind == "put" && tp.Pick(12) == 11 {
				op.big = true
			}
			jobs = append(jobs, rJob{ops: []rJobOp{op}})
			continue
		}
		j := rJob{txn: true, ro: tp.Pick(6) == 5, rollback: tp.Pick(8) == 7}
		nops := 1 + tp.Pick(5)
		if tp.Pick(5) == 0 {
			// a paginating reader: several pages / listings of ONE prefix (first
			// page, next page after the last entry seen, full listing) and then a
			// write - listings of one transaction share their verification state
			pfx := c08Prefixes[tp.Pick(len(c08Prefixes))]
			lim := 1 + tp.Pick(3)
			j.ro, j.rollback = false, false
			j.ops = append(j.ops, rJobOp{kind: "page", key: pfx, after: "", limit: lim})
			for o := 0; o < 1+tp.Pick(3); o++ {
				switch tp.Pick(4) {
				case 0:
					j.ops = append(j.ops, rJobOp{kind: "list", key: pfx})
				case 1:
					j.ops = append(j.ops, rJobOp{kind: "page", key: pfx, after: "", limit: []int{-1, lim + 1, 10}[tp.Pick(3)]})
				case 2:
					j.ops = append(j.ops, rJobOp{kind: "page", key: pfx, after: "$last", limit: lim})
				default:
					j.ops = append(j.ops, rJobOp{kind: "get", key: c08Keys[tp.Pick(len(c08Keys))]})
				}
			}
			j.ops = append(j.ops, rJobOp{kind: "put", key: c08Keys[tp.Pick(len(c08Keys))]})
			jobs = append(jobs, j)
			continue
		}
		for o := 0; o < nops; o++ {
			k := c08Keys[tp.Pick(len(c08Keys))]
			switch tp.Pick(7) {
			case 0, 1, 2:
				j.ops = append(j.ops, rJobOp{kind: "get", key: k})
			case 3, 4:
				j.ops = append(j.ops, rJobOp{kind: "put", key: k})
			case 5:
				j.ops = append(j.ops, rJobOp{kind: "list", key: c08Prefixes[tp.Pick(len(c08Prefixes))]})
			default:
				if tp.Pick(2) == 0 {
					j.ops = append(j.ops, rJobOp{kind: "del", key: k})
				} else {
					j.ops = append(j.ops, rJobOp{kind: "page", key: c08Prefixes[tp.Pick(len(c08Prefixes))],
						after: []string{"", "a", "d/", "x", ".", "../x"}[tp.Pick(6)], limit: []int{-1, 1, 2, 10}[tp.Pick(4)]})
				}
			}
		}
		jobs = append(jobs, j)
	}
	return jobs
}

// RunRaftWorkload drives K client tasks over the gated Raft backend.
func RunRaftWorkload(rc *RunCtx, h *RaftH, prop string) *RaftRun {
	s, tp := rc.S, rc.S.Tape
	b := h.B
	fsm := raft.VerifFSM(b)
	rr := &RaftRun{}
	nTasks := 2 + tp.Pick(3)
	perTask := 1 + tp.Pick(3)
	if rc.Thorough() {
		perTask = 1 + tp.Pick(5)
	}
	scripts := make([][]rJob, nTasks)
	for i := range scripts {
		scripts[i] = genRaftJobs(tp, perTask)
	}
	rc.Cfg("raft_tasks", nTasks)
	// stall fault: how reluctant the scheduler is to let the state machine apply
	s.StallKind = "fsm"
	s.StallPermille = []int{0, 300, 600, 850}[tp.Pick(4)]
	rc.Cfg("fsm_stall_permille", s.StallPermille)
	// a client task may also park right before an uncontended lock (the state
	// machine can then apply an entry between two statements of BeginTx / Get / Commit)
	s.YieldOnAcquirePermille = []int{0, 40, 150}[tp.Pick(3)]
	s.YieldAcquireLeft = 10
	s.AcquireSeed = tp.SubSeed()
	nBig := 0
	for _, sc := range scripts {
		for _, j := range sc {
			for _, op := range j.ops {
				if op.big {
					nBig++
				}
			}
		}
	}
	if nBig > 1 {
		// (two chunked puts that overtake each other could not be told apart in the log)
		s.YieldOnAcquirePermille = 0
	}
	rc.Cfg("yield_on_acquire_permille", s.YieldOnAcquirePermille)
	nval := 0
	txSeq := 0
	note := func(f string, a ...any) {
		l := fmt.Sprintf(f, a...)
		rr.Hist = append(rr.Hist, l)
		s.Note("%s", l)
	}
	ctx := context.Background()
	sv := func(b []byte) string { // big values stay out of traces
		if len(b) > 32 {
			return fmt.Sprintf("%s..(%d bytes)", b[:8], len(b))
		}
		return string(b)
	}
	propose := func(p *rProposal) {
		p.seq = len(rr.Proposals)
		rr.Proposals = append(rr.Proposals, p)
	}
	h.gateOn.Store(true)
	s.SetControlled()
	for ti := range scripts {
		ti := ti
		name := fmt.Sprintf("c%d", ti)
		s.Go(name, func() {
			for _, job := range scripts[ti] {
				if !job.txn {
					op := job.ops[0]
					s.Gate("op", name+" plain "+op.kind+" "+op.key, false)
					switch op.kind {
					case "put":
						nval++
						v := []byte(fmt.Sprintf("v%d", nval))
						if op.big {
							// above the chunking threshold: the entry reaches the log as several chunks
							v = append(append(v, '#'), bytes.Repeat([]byte{'x'}, 600*1024)...)
							s.Probe("chunked_put")
						}
						p := &rProposal{kind: "put", key: op.key, val: v}
						propose(p)
						note("%s plain put %s=%s (proposed #%d)", name, op.key, sv(v), p.seq)
						p.err = b.Put(ctx, &physical.Entry{Key: op.key, Value: v})
						p.done = true
					case "del":
						p := &rProposal{kind: "del", key: op.key}
						propose(p)
						note("%s plain del %s (proposed #%d)", name, op.key, p.seq)
						p.err = b.Delete(ctx, op.key)
						p.done = true
					case "get":
						idx := raft.VerifFSMIndex(fsm)
						e, err := b.Get(ctx, op.key)
						if err == nil {
							r := rRead{key: op.key, fsmIdx: idx, fsmIdxAfter: raft.VerifFSMIndex(fsm)}
							if e != nil {
								r.val, r.found = e.Value, true
							}
							rr.Reads = append(rr.Reads, r)
							note("%s plain get %s=%s @%d", name, op.key, sv(r.val), idx)
						}
					}
					continue
				}
				// a transaction
				s.Gate("op", name+" begin", false)
				var tx physical.Transaction
				var err error
				lastIdx := raft.VerifRaft(b).LastIndex()
				if job.ro {
					tx, err = b.BeginReadOnlyTx(ctx)
				} else {
					tx, err = b.BeginTx(ctx)
				}
				if err != nil {
					s.Violate(prop, "begin-failed", map[string]any{"backend": "raft"}, "begin: %v", err)
					return
				}
				txSeq++
				t := &rTxn{id: txSeq, ro: job.ro, beginIdx: raft.VerifTxnIndex(tx), raftLastIdx: lastIdx, own: map[string][]byte{}}
				rr.Txns = append(rr.Txns, t)
				if lag := t.raftLastIdx - t.beginIdx; t.raftLastIdx > t.beginIdx && lag > rr.MaxLag {
					rr.MaxLag = lag
				}
				t.idxAfterBegin = raft.VerifFSMIndex(fsm)
				note("%s T%d begin ro=%v @fsm=%d raft_last=%d", name, t.id, t.ro, t.beginIdx, t.raftLastIdx)
				for _, op := range job.ops {
					s.Gate("op", fmt.Sprintf("%s T%d %s %s", name, t.id, op.kind, op.key), false)
					switch op.kind {
					case "get":
						e, err := tx.Get(ctx, op.key)
						if err != nil {
							s.Violate(prop, "tx-get-failed", map[string]any{"backend": "raft"}, "T%d get: %v", t.id, err)
							return
						}
						o := obs{kind: 'g', key: op.key}
						if e != nil {
							o.val, o.found = e.Value, true
						}
						if own, mine := t.own[op.key]; mine && ((own == nil) == o.found || !bytes.Equal(own, o.val)) {
							s.Violate(prop, "own-write-not-visible", map[string]any{"backend": "raft"}, "T%d wrote %q=%q but reads (%q,%v)", t.id, op.key, sv(own), sv(o.val), o.found)
							return
						}
						t.ops = append(t.ops, o)
						note("%s T%d get %s=%s", name, t.id, op.key, sv(o.val))
					case "put":
						nval++
						v := []byte(fmt.Sprintf("v%d", nval))
						err := tx.Put(ctx, &physical.Entry{Key: op.key, Value: v})
						if t.ro {
							if err == nil {
								s.Violate(prop, "readonly-tx-accepted-write", map[string]any{"backend": "raft"}, "read-only T%d accepted a put", t.id)
								return
							}
							continue
						}
						if err != nil {
							s.Violate(prop, "tx-put-failed", map[string]any{"backend": "raft"}, "T%d put: %v", t.id, err)
							return
						}
						t.ops = append(t.ops, obs{kind: 'w', key: op.key, val: v})
						t.own[op.key] = v
						t.writes++
						note("%s T%d put %s=%s", name, t.id, op.key, v)
					case "del":
						err := tx.Delete(ctx, op.key)
						if t.ro {
							if err == nil {
								s.Violate(prop, "readonly-tx-accepted-write", map[string]any{"backend": "raft"}, "read-only T%d accepted a delete", t.id)
								return
							}
							continue
						}
						if err != nil {
							s.Violate(prop, "tx-delete-failed", map[string]any{"backend": "raft"}, "T%d delete: %v", t.id, err)
							return
						}
						t.ops = append(t.ops, obs{kind: 'd', key: op.key})
						t.own[op.key] = nil
						t.writes++
						note("%s T%d del %s", name, t.id, op.key)
					case "list":
						l, err := tx.List(ctx, op.key)
						if err != nil {
							s.Violate(prop, "tx-list-failed", map[string]any{"backend": "raft"}, "T%d list: %v", t.id, err)
							return
						}
						t.ops = append(t.ops, obs{kind: 'l', key: op.key, result: l})
						note("%s T%d list %q=%v", name, t.id, op.key, l)
					case "page":
						if op.after == "$last" { // continue after the last entry this transaction has seen
							op.after = ""
							for i := len(t.ops) - 1; i >= 0; i-- {
								if o := t.ops[i]; (o.kind == 'p' || o.kind == 'l') && o.key == op.key && len(o.result) > 0 {
									op.after = o.result[len(o.result)-1]
									break
								}
							}
						}
						l, err := tx.ListPage(ctx, op.key, op.after, op.limit)
						if err != nil {
							s.Violate(prop, "tx-listpage-failed", map[string]any{"backend": "raft"}, "T%d listpage: %v", t.id, err)
							return
						}
						t.ops = append(t.ops, obs{kind: 'p', key: op.key, after: op.after, limit: op.limit, result: l})
						note("%s T%d page %q after=%q limit=%d=%v", name, t.id, op.key, op.after, op.limit, l)
					}
				}
				s.Gate("op", fmt.Sprintf("%s T%d finish", name, t.id), false)
				if job.rollback {
					note("%s T%d rollback", name, t.id)
					if err := tx.Rollback(ctx); err != nil {
						s.Violate(prop, "rollback-failed", map[string]any{"backend": "raft"}, "T%d rollback: %v", t.id, err)
						return
					}
					t.rolledBack = true
					t.finishIdx = raft.VerifFSMIndex(fsm)
				} else {
					var p *rProposal
					if t.writes > 0 {
						p = &rProposal{kind: "tx", txn: t}
						propose(p)
						note("%s T%d commit (proposed #%d)", name, t.id, p.seq)
					} else {
						note("%s T%d commit (no writes)", name, t.id)
					}
					err := tx.Commit(ctx)
					t.finishIdx = raft.VerifFSMIndex(fsm)
					if p != nil {
						p.err = err
						p.done = true
					} else if err != nil {
						s.Violate(prop, "commit-without-writes-failed", map[string]any{"backend": "raft"}, "T%d (no writes) commit failed: %v", t.id, err)
						return
					}
					t.committed = err == nil
					note("%s T%d commit -> %v", name, t.id, err == nil)
				}
				// finished transactions refuse use
				if err := tx.Put(ctx, &physical.Entry{Key: "a", Value: []byte("x")}); err == nil {
					s.Violate(prop, "finished-tx-accepts-write", map[string]any{"backend": "raft"}, "T%d accepted a put after it finished", t.id)
					return
				}
				if _, err := tx.Get(ctx, "a"); err == nil {
					s.Violate(prop, "finished-tx-serves-read", map[string]any{"backend": "raft", "touched_key": false, "cache_layer": false}, "T%d served a get after it finished", t.id)
					return
				}
			}
		})
	}
	s.Run()
	h.gateOn.Store(false)
	s.PassThrough()
	// let any remaining applies finish
	for i := 0; i < 200; i++ {
		if raft.VerifFSMIndex(fsm) >= raft.VerifRaft(b).LastIndex() {
			break
		}
		time.Sleep(10 * time.Millisecond)
	}
	synctest.Wait()
	logs, err := raft.VerifCommandLogs(b)
	if err != nil {
		panic(err)
	}
	rr.Logs = logs
	s.ProbeN("fsm_lag_max", int(rr.MaxLag))
	if rr.MaxLag >= 2 {
		s.Probe("fsm_lag>=2")
	}
	return rr
}

type idxState struct {
	idx uint64
	kv  *KV
}

// CheckRaftSerial is the post-hoc serial oracle over the leader's own log.
func CheckRaftSerial(rc *RunCtx, h *RaftH, rr *RaftRun, prop string) {
	s := rc.S
	if s.Viol != nil || s.Trunc {
		return
	}
	viol := func(class string, sig map[string]any, f string, a ...any) {
		if sig == nil {
			sig = map[string]any{}
		}
		sig["backend"] = "raft"
		s.Violate(prop, class, sig, "raft: %s; history: %v", fmt.Sprintf(f, a...), tail(rr.Hist, 40))
	}
	for _, p := range rr.Proposals {
		if !p.done {
			viol("proposal-never-completed", nil, "proposal #%d (%s) never returned", p.seq, p.kind)
			return
		}
	}
	state := NewKV()
	states := []idxState{{0, state.Clone()}}
	stateAt := func(idx uint64) *KV {
		i := sort.Search(len(states), func(i int) bool { return states[i].idx > idx })
		return states[i-1].kv
	}
	pi := 0
	match := rr.Matcher()
	cmdsBetween := func(lo, hi uint64) int { // command entries with lo < index < hi
		n := 0
		for _, l := range rr.Logs {
			if l.Type == hraft.LogCommand && l.Index > lo && l.Index < hi {
				n++
			}
		}
		return n
	}
	// an observation that shows the chunking layer's own records (they live in
	// the data bucket under raftchunking/, visible to a root listing while a
	// chunked entry is in flight)
	seesChunkStore := func(o *obs) bool {
		if o == nil {
			return false
		}
		for _, e := range o.result {
			if strings.HasPrefix(e, "raftchunking") {
				return true
			}
		}
		return strings.HasPrefix(o.key, "raftchunking")
	}
	conflicts, commits := 0, 0
	for _, l := range rr.Logs {
		if l.Type != hraft.LogCommand {
			continue
		}
		kind, writes, _, _ := raft.VerifLogKind(l)
		isChunk, lastChunk := raft.VerifChunk(l)
		if isChunk && !lastChunk {
			continue // the proposal takes effect with its last chunk
		}
		p := match(l)
		if p == nil {
			panic(fmt.Sprintf("raft log entry %d (%s %v) matches no outstanding proposal", l.Index, kind, writes))
		}
		pi++
		switch p.kind {
		case "put":
			if p.err != nil {
				viol("plain-put-failed", nil, "put %q: %v", p.key, p.err)
				return
			}
			state.Put(p.key, p.val)
		case "del":
			if p.err != nil {
				viol("plain-delete-failed", nil, "delete %q: %v", p.key, p.err)
				return
			}
			state.Delete(p.key)
		case "tx":
			t := p.txn
			lagging := t.raftLastIdx > t.beginIdx
			if p.err == nil {
				commits++
				next := state.Clone()
				if bad, want := replayObs(t.ops, next); bad != nil {
					// what kind of staleness: were entries applied while BeginTx ran (between
					// reading the start index and registering with the tracker), and are the
					// reads at least those of the state at the recorded start index?
					atStart, _ := replayObs(t.ops, stateAt(t.beginIdx).Clone())
					viol("stale-read-committed", map[string]any{"fsm_behind_raft_at_begin": lagging, "obs": string(bad.kind), "root_listing_shows_chunk_storage": seesChunkStore(bad),
						"applied_during_begin": t.idxAfterBegin > t.beginIdx, "reads_match_state_at_start_index": atStart == nil},
						"T%d (began at fsm index %d while raft's last index was %d; committed at index %d) committed although it observed %s, but in log order the %s; ops %v",
						t.id, t.beginIdx, t.raftLastIdx, l.Index, bad, want, t.ops)
					return
				}
				state = next
			} else {
				conflicts++
				if !errors.Is(p.err, physical.ErrTransactionCommitFailure) && !strings.Contains(p.err.Error(), physical.ErrTransactionCommitFailure.Error()) {
					viol("commit-error-not-conflict-class", nil, "T%d commit failed with a non-conflict error: %v", t.id, p.err)
					return
				}
				if cmdsBetween(t.beginIdx, l.Index) == 0 {
					viol("spurious-conflict-without-concurrency", nil, "T%d (begin index %d) failed at index %d although no entry lies in between: %v", t.id, t.beginIdx, l.Index, p.err)
					return
				}
			}
		}
		states = append(states, idxState{l.Index, state.Clone()})
	}
	if pi != len(rr.Proposals) {
		panic(fmt.Sprintf("%d proposals but %d command entries", len(rr.Proposals), pi))
	}
	// transactions without writes: one consistent state in [begin, finish]
	for _, t := range rr.Txns {
		if t.writes > 0 || !(t.committed || t.rolledBack) {
			continue
		}
		ok := false
		for _, st := range states {
			if st.idx < t.beginIdx && st.idx != 0 {
				continue
			}
			if st.idx > t.finishIdx {
				break
			}
			_ = st
		}
		// candidate states: state at begin index, and every later one up to finish
		cands := []*KV{stateAt(t.beginIdx)}
		for _, st := range states {
			if st.idx > t.beginIdx && st.idx <= t.finishIdx+64 {
				cands = append(cands, st.kv)
			}
		}
		var first string
		chunkStore := false
		for _, c := range cands {
			bad, want := replayObs(t.ops, c.Clone())
			if bad == nil {
				ok = true
				break
			}
			if first == "" {
				first = fmt.Sprintf("%s vs %s", bad, want)
				chunkStore = seesChunkStore(bad)
			}
		}
		if !ok {
			viol("inconsistent-snapshot-read", map[string]any{"root_listing_shows_chunk_storage": chunkStore}, "T%d (no writes, fsm index %d..%d) observed values consistent with no single state in that range (%s); ops %v", t.id, t.beginIdx, t.finishIdx, first, t.ops)
			return
		}
	}
	// (the state machine publishes its index after the bolt commit of a batch:
	// a view opened in between already holds that batch - so the upper end of
	// every window is one batch past the index read afterwards; the lower end,
	// which is what staleness is judged by, is exact)
	const batchSlack = 64
	for _, r := range rr.Reads {
		m := stateAt(r.fsmIdx)
		mv, mok := m.Get(r.key)
		ok := mok == r.found && bytes.Equal(mv, r.val)
		for _, st := range states {
			if !ok && st.idx > r.fsmIdx && st.idx <= r.fsmIdxAfter+batchSlack {
				v, f := st.kv.Get(r.key)
				ok = f == r.found && bytes.Equal(v, r.val)
			}
		}
		if !ok {
			viol("plain-read-mismatch", nil, "plain get %q at fsm index %d..%d = (%q,%v), log-order state at %d has (%q,%v)", r.key, r.fsmIdx, r.fsmIdxAfter, r.val, r.found, r.fsmIdx, mv, mok)
			return
		}
	}
	// final state
	keys, vals := raft.VerifDump(raft.VerifFSM(h.B))
	got := NewKV()
	for i, k := range keys {
		got.Put(k, vals[i])
	}
	for _, k := range c08Keys {
		gv, gok := got.Get(k)
		mv, mok := state.Get(k)
		if gok != mok || !bytes.Equal(gv, mv) {
			viol("final-state-mismatch", nil, "final %q = (%q,%v), log-order model (%q,%v)", k, gv, gok, mv, mok)
			return
		}
	}
	s.ProbeN("txn_conflicts", conflicts)
	s.ProbeN("txn_commits", commits)
}

// Matcher returns a function that names the proposal a command entry of the
// leader's log (for a chunked command: its last chunk) belongs to. Proposals
// are registered right before the backend call; a task that parks between the
// two (yield before an uncontended lock) can be overtaken, so entries are
// matched by content (written values are unique), in registration order among
// equals. nil: no outstanding proposal matches.
func (rr *RaftRun) Matcher() func(l *hraft.Log) *rProposal {
	matched := map[*rProposal]bool{}
	return func(l *hraft.Log) *rProposal {
		kind, writes, _, _ := raft.VerifLogKind(l)
		isChunk, _ := raft.VerifChunk(l)
		matches := func(p *rProposal) bool {
			switch p.kind {
			case "put":
				if isChunk {
					return len(p.val) >= 512*1024
				}
				return kind == "plain" && len(writes) == 1 && writes[p.key] != nil && bytes.Equal(writes[p.key], p.val)
			case "del":
				v, ok := writes[p.key]
				return kind == "plain" && len(writes) == 1 && ok && v == nil
			case "tx":
				if kind != "tx" || p.txn == nil || len(writes) != len(p.txn.own) {
					return false
				}
				for k, v := range p.txn.own {
					w, ok := writes[k]
					if !ok || !bytes.Equal(w, v) || (w == nil) != (v == nil) {
						return false
					}
				}
				return true
			}
			return false
		}
		for _, c := range rr.Proposals {
			if !matched[c] && matches(c) {
				matched[c] = true
				return c
			}
		}
		return nil
	}
}
