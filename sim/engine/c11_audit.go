package verifsim

import (
	"bytes"
	"context"
	"encoding/base64"
	"encoding/json"
	"fmt"
	"strings"
	"sync/atomic"
	"time"

	"github.com/openbao/openbao/v2/internal/audit"
	"github.com/openbao/openbao/sdk/v2/logical"
)

// C11 — audit precedes effect and disclosure; audit entries never hold
// plaintext secrets.
//
// 1-3 simulated audit devices (real formatter, HMAC and salt; options
// hmac_accessor, elide_list_responses). Enumeration part: for every request
// kind of the scenario and for both phases the full outcome pattern space
// {ok, error, panic}^devices is enumerated (27 patterns x 2 phases for three
// devices), one request each. Exploration part: concurrent requests whose
// audit calls, storage operations and lock hand-offs are interleaved by the
// scheduler with random device failures. Requests carry generated payload
// shapes (nested maps, lists, mixed scalars, empty values) with canaries at
// arbitrary depth to the recording backend, plus wrapped responses, logins
// and token creation.
//
// Oracles: (1) a backend handler invocation for request R has a larger event
// number than an accepted request entry for R; (2) a response with data is
// returned only when a response entry for R was accepted; (3) every device
// failing => the client gets an error without data / secret / auth / wrap
// info and (request phase) the handler never ran; (4) no accepted entry
// contains a canary (client token, wrapping token, accessor when so
// configured, any string leaf of request or response data outside the
// exempted keys); positive control: the salted HMAC of the canary is there.

func init() {
	register(&Scenario{Prop: "C11", Name: "audit", Run: runC11})
}

// genPayload builds request data: nested maps, lists, mixed scalars, empty
// values, canaries at arbitrary depth. The keys in `exempt` (configured on
// the mount as audit_non_hmac_*_keys) are sprinkled at every depth - also in
// maps that are list elements, followed by secret siblings - always with a
// non-secret value: exemption is a property of the nearest enclosing key and
// must not spill over to anything else.
func genPayload(tp *Tape, depth int, canary func(string) string, exempt ...string) map[string]any {
	out := map[string]any{}
	n := 1 + tp.Pick(4)
	exemptMap := func() map[string]any {
		m := map[string]any{}
		if len(exempt) > 0 {
			m[exempt[tp.Pick(len(exempt))]] = "EXEMPT-visible-value"
		}
		return m
	}
	for i := 0; i < n; i++ {
		k := fmt.Sprintf("f%d", i)
		switch tp.Pick(10) {
		case 0, 1:
			out[k] = canary("leaf")
		case 2:
			out[k] = tp.Pick(1000)
		case 3:
			out[k] = tp.Pick(2) == 0
		case 4:
			out[k] = ""
		case 5:
			l := []any{}
			for j := 0; j < 1+tp.Pick(3); j++ {
				if depth > 0 && tp.Pick(3) == 0 {
					l = append(l, genPayload(tp, depth-1, canary, exempt...))
				} else {
					l = append(l, canary("list"))
				}
			}
			out[k] = l
		case 6:
			if depth > 0 {
				out[k] = genPayload(tp, depth-1, canary, exempt...)
			} else {
				out[k] = canary("leaf")
			}
		case 7:
			out[k] = []string{canary("strs"), canary("strs")}
		case 8: // a list whose first element is a map holding only an exempt key
			l := []any{exemptMap()}
			for j := 0; j < 1+tp.Pick(3); j++ {
				if tp.Pick(3) == 0 {
					l = append(l, []any{canary("sub")})
				} else {
					l = append(l, canary("sibling"))
				}
			}
			out[k] = l
		case 9: // an exempt key holding a map / list: what is below a further key is not exempt
			if len(exempt) > 0 {
				ek := exempt[tp.Pick(len(exempt))]
				if tp.Pick(2) == 0 {
					out[ek] = map[string]any{"inner": canary("below-exempt")}
				} else {
					out[ek] = []any{"EXEMPT-visible-item", map[string]any{"inner": canary("below-exempt")}}
				}
			}
		}
	}
	if len(exempt) > 0 && tp.Pick(2) == 0 {
		ek := exempt[tp.Pick(len(exempt))]
		if _, set := out[ek]; !set {
			out[ek] = "EXEMPT-visible-value"
		}
	}
	return out
}

func runC11(rc *RunCtx) {
	s, tp := rc.S, rc.S.Tape
	opts := CoreOpts{DisableCache: tp.Pick(2) == 1, Plain: tp.Pick(3) == 2}
	nDev := 1 + tp.Pick(3)
	enumerate := tp.Pick(3) != 2
	rc.Cfg("devices", nDev)
	rc.Cfg("mode", map[bool]string{true: "enumerate", false: "concurrent"}[enumerate])
	var evt atomic.Int64
	disk := NewDisk(s)
	rec := NewRecorder(s)
	rec.EvtCounter = &evt
	hub := NewAuditHub(s, &evt)
	opts.Logical = map[string]logical.Factory{"rec": RecFactory(rec, false)}
	opts.Credential = map[string]logical.Factory{"rec": RecFactory(rec, true)}
	opts.Audit = map[string]audit.Factory{"sim": hub.Factory()}
	h, err := BootCore(disk, opts)
	if err != nil {
		panic(err)
	}
	defer h.Shutdown()
	must(h.Mount("rec", "rec", map[string]any{"config": map[string]any{"audit_non_hmac_request_keys": "plainreq", "audit_non_hmac_response_keys": "plainresp"}}))
	must(h.EnableAuth("rec", "rec"))
	must(h.Policy("p", c04Policy))
	hmacAccessor := make([]bool, nDev)
	for i := 0; i < nDev; i++ {
		hmacAccessor[i] = tp.Pick(3) != 2
		_, err := h.RootWrite(fmt.Sprintf("sys/audit/dev%d", i), map[string]any{"type": "sim", "options": map[string]any{
			"name": fmt.Sprintf("dev%d", i), "hmac_accessor": fmt.Sprint(hmacAccessor[i]), "elide_list_responses": fmt.Sprint(tp.Pick(3) == 0)}})
		must(err)
	}
	tok, tokAcc, err := h.CreateToken("", map[string]any{"policies": []string{"p"}, "ttl": "1h"})
	must(err)
	// how the token reaches the Core (as the HTTP layer hands it over) and
	// whether the operator audits the token-bearing headers themselves: the
	// Core strips the credential from the headers before anything is audited
	via := []string{"", "header", "bearer"}[tp.Pick(3)]
	hdrMode := tp.Pick(3)
	rc.Cfg("token_via", via)
	rc.Cfg("audited_auth_headers", []string{"none", "plain", "hmac"}[hdrMode])
	if hdrMode > 0 {
		for _, hn := range []string{"X-Vault-Token", "Authorization", "X-Request-Tag"} {
			_, err := h.RootWrite("sys/config/auditing/request-headers/"+hn, map[string]any{"hmac": hdrMode == 2})
			must(err)
		}
	}

	var canaries []string
	nc := 0
	canary := func(tag string) string {
		nc++
		c := fmt.Sprintf("CANARY-%s-%d-%d", tag, nc, tp.Pick(1<<20))
		canaries = append(canaries, c)
		return c
	}
	canaries = append(canaries, tok)
	kinds := []string{"echo", "write", "read", "wrapped", "login", "tcreate", "list", "wrapped-jwt", "denied", "denied-write"}
	_, err = h.RootWrite("rec/data/pre", map[string]any{"value": canary("stored")})
	must(err)
	var mkReq0 func(kind string) Req
	mkReq := func(kind string) Req {
		r := mkReq0(kind)
		r.Via = via
		return r
	}
	mkReq0 = func(kind string) Req {
		switch kind {
		case "denied": // a valid token, a path its policy does not grant
			return Req{Op: logical.ReadOperation, Path: "sys/policies/acl/p", Token: tok}
		case "denied-write":
			return Req{Op: logical.UpdateOperation, Path: []string{"sys/policies/acl/zz", "nowhere/x"}[tp.Pick(2)], Token: tok, Data: map[string]any{"policy": canary("denied-body")}}
		case "echo":
			return Req{Op: logical.UpdateOperation, Path: "rec/echo", Token: tok, Data: genPayload(tp, 2, canary, "plainreq", "plainresp")}
		case "write":
			return Req{Op: logical.UpdateOperation, Path: "rec/data/w", Token: tok, Data: map[string]any{"value": canary("value")}}
		case "read":
			return Req{Op: logical.ReadOperation, Path: "rec/data/pre", Token: tok}
		case "wrapped":
			return Req{Op: logical.ReadOperation, Path: "rec/data/pre", Token: tok, WrapTTL: time.Minute}
		case "wrapped-jwt": // the wrapping token is handed out as a JWT carrying the token id
			return Req{Op: logical.ReadOperation, Path: "rec/data/pre", Token: tok, WrapTTL: time.Minute, WrapFmt: "jwt"}
		case "login":
			return Req{Op: logical.UpdateOperation, Path: "auth/rec/login", Data: map[string]any{"policies": "p", "alias": "plain-alias"}}
		case "tcreate":
			return Req{Op: logical.UpdateOperation, Path: "auth/token/create", Token: tok, Data: map[string]any{"policies": []string{"p"}, "meta": map[string]string{"m": "plain-meta"}}} // (token metadata is echoed into auth.metadata, which is not secret by design)
		case "list":
			return Req{Op: logical.ListOperation, Path: "rec/data/", Token: tok}
		}
		panic(kind)
	}
	viol := func(class string, sig map[string]any, f string, a ...any) {
		s.Violate("C11", class, sig, f, a...)
	}
	respHasData := func(resp *logical.Response) bool {
		if resp == nil {
			return false
		}
		if resp.IsError() {
			return false
		}
		return len(resp.Data) > 0 || resp.Secret != nil || resp.Auth != nil || resp.WrapInfo != nil
	}
	// judge one finished request
	judge := func(tag, kind string, resp *logical.Response, err error, pattern string) bool {
		id := ""
		for _, c := range hub.Calls {
			if strings.HasPrefix(c.ReqID, tag+"-") {
				id = c.ReqID
			}
		}
		if id == "" {
			for _, e := range rec.Snapshot() {
				if strings.HasPrefix(e.ReqID, tag+"-") {
					id = e.ReqID
				}
			}
		}
		sig := map[string]any{"kind": kind}
		reqOK := hub.Accepted(id, "request")
		respOK := hub.Accepted(id, "response")
		// (1) handler after an accepted request entry
		for _, e := range rec.Snapshot() {
			if e.ReqID != id || (e.Kind != "handler" && e.Kind != "login") {
				continue
			}
			before := false
			for _, a := range reqOK {
				if a.Evt < e.Evt {
					before = true
				}
			}
			if !before {
				viol("handler-before-audit", sig, "request %s (%s, pattern %s): backend handler ran (event %d) with no accepted request audit entry before it (accepted: %d)", id, kind, pattern, e.Evt, len(reqOK))
				return false
			}
		}
		// (2) data only after an accepted response entry
		if respHasData(resp) && len(respOK) == 0 {
			viol("data-returned-without-response-audit", sig, "request %s (%s, pattern %s) returned data although no device accepted its response entry", id, kind, pattern)
			return false
		}
		// (3) nothing leaks in an error answer caused by audit failure
		if len(reqOK) == 0 || len(respOK) == 0 {
			if respHasData(resp) {
				viol("data-returned-although-audit-failed", sig, "request %s (%s, pattern %s): audit failed (request accepted %d, response accepted %d) but the client received data", id, kind, pattern, len(reqOK), len(respOK))
				return false
			}
			b, _ := json.Marshal(resp)
			for _, c := range canaries[1:] {
				if bytes.Contains(b, []byte(c)) {
					viol("secret-in-error-response", sig, "request %s (%s, pattern %s): the error answer contains secret material %q", id, kind, pattern, c)
					return false
				}
			}
		}
		if resp != nil && resp.WrapInfo != nil {
			canaries = append(canaries, resp.WrapInfo.Token)
			// a JWT-format wrapping token carries the actual token id in its
			// "jti" claim: that id is what unwraps, so it is a secret too
			if parts := strings.Split(resp.WrapInfo.Token, "."); len(parts) == 3 {
				if pb, err := base64.RawURLEncoding.DecodeString(parts[1]); err == nil {
					var claims map[string]any
					if json.Unmarshal(pb, &claims) == nil {
						if jti, _ := claims["jti"].(string); jti != "" {
							canaries = append(canaries, jti)
							s.Probe("jwt_wrapping_token_issued")
						}
					}
				}
			}
		}
		if resp != nil && resp.Auth != nil && resp.Auth.ClientToken != "" {
			canaries = append(canaries, resp.Auth.ClientToken)
		}
		return true
	}
	// (4) scan all accepted entries for canaries
	scan := func() bool {
		hub.mu.Lock()
		entries := append([]AuditEntry(nil), hub.Entries...)
		hub.mu.Unlock()
		for _, e := range entries {
			for _, c := range canaries {
				if bytes.Contains(e.Bytes, []byte(c)) {
					kind := "data-leaf"
					if strings.HasPrefix(c, "hvs.") || strings.HasPrefix(c, "s.") || strings.HasPrefix(c, "b.") {
						kind = "token"
					}
					viol("plaintext-secret-in-audit-entry", map[string]any{"secret_kind": kind, "phase": e.Phase}, "audit entry of %s (%s, request %s) contains the plaintext of %q: %s", e.Device, e.Phase, e.ReqID, c, trunc(e.Bytes, 600))
					return false
				}
			}
			idx := 0
			fmt.Sscanf(e.Device, "dev%d", &idx)
			if idx < len(hmacAccessor) && hmacAccessor[idx] && tokAcc != "" && bytes.Contains(e.Bytes, []byte(tokAcc)) {
				viol("plaintext-secret-in-audit-entry", map[string]any{"secret_kind": "accessor", "phase": e.Phase}, "audit entry of %s contains the plaintext accessor although hmac_accessor is on", e.Device)
				return false
			}
		}
		// positive control: a final request with every device healthy carries a
		// known canary; each device's request entry must contain its salted HMAC
		ctl := canary("control")
		hub.Outcome = func(string, string, string) Fault { return FaultNone }
		h.Do("ctl", Req{Op: logical.UpdateOperation, Path: "rec/data/ctl", Token: tok, Data: map[string]any{"value": ctl}})
		hub.Outcome = nil
		hub.mu.Lock()
		entries = append([]AuditEntry(nil), hub.Entries...)
		hub.mu.Unlock()
		enabled := map[string]bool{}
		if lr, err := h.RootRead("sys/audit"); err == nil && lr != nil {
			for k := range lr.Data {
				enabled[strings.TrimSuffix(k, "/")] = true
			}
		}
		for name, d := range hub.Devices {
			if !enabled[name] {
				continue // disabled during the run
			}
			hm, err := d.GetHash(context.Background(), ctl)
			if err != nil {
				continue
			}
			found := false
			for _, e := range entries {
				if e.Device == name && e.Phase == "request" && strings.HasPrefix(e.ReqID, "ctl-") {
					if bytes.Contains(e.Bytes, []byte(ctl)) {
						viol("plaintext-secret-in-audit-entry", map[string]any{"secret_kind": "data-leaf", "phase": e.Phase}, "control request: entry of %s contains the plaintext canary", name)
						return false
					}
					if bytes.Contains(e.Bytes, []byte(hm)) {
						found = true
					}
				}
			}
			if !found {
				viol("hmac-control-missing", nil, "the request entry of %s for the control request does not carry the salted HMAC of its secret value (scanner would be blind)", name)
				return false
			}
			s.Probe("hmac_control_ok")
		}
		return true
	}
	outcomes := []Fault{FaultNone, FaultErrNA, FaultPanic}
	names := []string{"ok", "err", "panic"}
	evals := 0
	if enumerate {
		kind := kinds[tp.Pick(len(kinds))]
		rc.Cfg("kind", kind)
		npat := 1
		for i := 0; i < nDev; i++ {
			npat *= 3
		}
		for phase := 0; phase < 2 && s.Viol == nil; phase++ {
			for pat := 0; pat < npat && s.Viol == nil; pat++ {
				ph := []string{"request", "response"}[phase]
				dec := make([]Fault, nDev)
				var desc []string
				x := pat
				for i := 0; i < nDev; i++ {
					dec[i] = outcomes[x%3]
					desc = append(desc, names[x%3])
					x /= 3
				}
				pattern := ph + ":" + strings.Join(desc, ",")
				hub.Outcome = func(device, p, reqID string) Fault {
					if p != ph {
						return FaultNone
					}
					i := 0
					fmt.Sscanf(device, "dev%d", &i)
					if dec[i] != FaultNone {
						s.mu.Lock()
						s.Faults["audit-"+names[map[Fault]int{FaultErrNA: 1, FaultPanic: 2}[dec[i]]]]++
						s.mu.Unlock()
					}
					return dec[i]
				}
				tag := fmt.Sprintf("e%d", evals)
				evals++
				resp, err := h.Do(tag, mkReq(kind))
				hub.Outcome = nil
				s.Note("%s %s -> err=%v", kind, pattern, err != nil)
				if !judge(tag, kind, resp, err, pattern) {
					return
				}
			}
		}
	} else {
		// concurrent requests, audit outcomes decided by the scheduler
		n := 2 + tp.Pick(3)
		type res struct {
			kind string
			resp *logical.Response
			err  error
		}
		results := make([]res, n)
		s.SetFaults(120, 4, FaultErrNA, FaultPanic)
		s.SwarmFreeze()
		rc.Cfg("sched", fmt.Sprintf("stall=%d yield_on_release=%v", s.FreezePermille, s.YieldOnRelease))
		s.SetControlled()
		for i := 0; i < n; i++ {
			i := i
			kind := kinds[tp.Pick(len(kinds))]
			r := mkReq(kind)
			tag := fmt.Sprintf("c%d", i)
			results[i].kind = kind
			s.Go(tag, func() { results[i].resp, results[i].err = h.Do(tag, r) })
		}
		// devices other than dev0 are disabled (and possibly enabled again, or a
		// further one is added) while the requests are in flight; dev0 stays, so
		// at every instant at least one device is registered and every request
		// must be audited
		if tp.Pick(2) == 0 {
			toggles := 1 + tp.Pick(2)
			rc.Cfg("device_toggles", toggles)
			for j := 0; j < toggles; j++ {
				dev := fmt.Sprintf("dev%d", 1+tp.Pick(nDev)) // dev<nDev> does not exist yet: it is added
				again := tp.Pick(2) == 0
				tag := fmt.Sprintf("tog%d", j)
				s.Go(tag, func() {
					enable := func() {
						h.Do(tag, Req{Op: logical.UpdateOperation, Path: "sys/audit/" + dev, Token: h.Root, Data: map[string]any{"type": "sim", "options": map[string]any{"name": dev, "hmac_accessor": "true"}}})
					}
					if dev == fmt.Sprintf("dev%d", nDev) {
						enable()
						s.Probe("device_added_during_requests")
						return
					}
					h.Do(tag, Req{Op: logical.DeleteOperation, Path: "sys/audit/" + dev, Token: h.Root})
					s.Probe("device_disabled_during_requests")
					if again {
						enable()
					}
				})
			}
		}
		s.Run()
		s.SetFaults(0, 0)
		s.PassThrough()
		if s.Trunc || s.Viol != nil {
			return
		}
		for i, r := range results {
			evals++
			if !judge(fmt.Sprintf("c%d", i), r.kind, r.resp, r.err, "scheduled") {
				return
			}
		}
	}
	if s.Viol == nil {
		scan()
	}
	rc.Res.Evals = evals
	s.Steps += evals
	rc.Res.Sample = map[string]any{"devices": nDev, "requests": evals, "accepted_entries": len(hub.Entries), "canaries": len(canaries)}
	rc.Res.StateSig = fmt.Sprintf("d%d/%v/%d", nDev, enumerate, evals)
}
