package verifsim

import (
	"fmt"
	"sort"
	"strings"
	"time"

	"github.com/openbao/openbao/v2/internal/vault"
	"github.com/openbao/openbao/sdk/v2/logical"
)

// C04 — token revocation is final and cascades to descendants, leases and
// cubbyhole.
//
// Workload: a token tree (depth <= 3, fan-out <= 2, some orphans, some
// multi-use tokens) is built under a root-created token; tokens hold leased
// secrets (recording backend) and cubbyhole entries. Then concurrent tasks,
// interleaved at storage-operation and lock-hand-off granularity: one or two
// revocations of a chosen token X (revoke / revoke-self / revoke-accessor /
// revoke-orphan, or expiry by the simulated clock), child creation, use,
// renewal, lease creation and cubbyhole writes by tokens inside X's subtree.
// Fault runs fail storage operations inside the revocation (err-na) and the
// client RETRIES the revocation until it reports success.
//
// Oracle, from the step at which a revocation reported success: every token
// in {X} U nonOrphanDescendants(X) (children whose creation was acknowledged
// included) is refused by every later request, also after the lazy work
// drained and after a reboot on the durable state; its accessor no longer
// resolves; the number of token entries / cubbyhole folders on disk equals
// the number of tokens that must be alive; every secret leased under a dead
// token was revoked at the backend.

func init() {
	register(&Scenario{Prop: "C04", Name: "revocation", Run: runC04})
}

const c04Policy = `
path "auth/token/create" { capabilities = ["update"] }
path "auth/token/create-orphan" { capabilities = ["update", "sudo"] }
path "rec/*" { capabilities = ["create","read","update","delete","list"] }
path "cubbyhole/*" { capabilities = ["create","read","update","delete","list"] }
`

type c04Tok struct {
	name     string
	id, acc  string
	parent   *c04Tok
	orphan   bool
	children []*c04Tok
	numUses  int
	cubby    bool
	secrets  []string
	leases   []string // lease ids of the secrets issued under it
	tokLease string   // lease id of the token itself
	late     bool     // created during the concurrent phase
	task     string // the client task that created it (late tokens)
}

func (t *c04Tok) subtree(out *[]*c04Tok) {
	*out = append(*out, t)
	for _, c := range t.children {
		if !c.orphan {
			c.subtree(out)
		}
	}
}

func runC04(rc *RunCtx) {
	s, tp := rc.S, rc.S.Tape
	if tp.Pick(10) == 9 {
		runC04CrossNS(rc)
		return
	}
	cacheOff := tp.Pick(2) == 1
	plain := tp.Pick(3) == 2
	faulty := tp.Pick(4) == 3
	expiry := !faulty && tp.Pick(8) == 7
	rc.Cfg("cache_off", cacheOff)
	rc.Cfg("plain_disk", plain)
	rc.Cfg("faulty", faulty)
	rc.Cfg("expiry", expiry)
	disk := NewDisk(s)
	// second scheduling point per storage operation (effect vs. continuation) in a third of the runs
	disk.PostGate = tp.Pick(3) == 2
	rc.Cfg("post_gate", disk.PostGate)
	disk.RecordOps = true
	rec := NewRecorder(s)
	h, err := BootCore(disk, CoreOpts{
		DisableCache: cacheOff, Plain: plain, DisableSSC: tp.Pick(2) == 1,
		Logical: map[string]logical.Factory{"rec": RecFactory(rec, false)},
	})
	if err != nil {
		panic(err)
	}
	defer func() { h.Shutdown() }()
	// a quarter of the runs place the whole tree (tokens, mount, policy, leases,
	// cubbyholes) in a child namespace: every request carries its header, every
	// storage key sits under namespaces/<uuid>/
	nsH, kp := "", ""
	if tp.Pick(4) == 3 {
		if r, err := h.Do("setup", Req{Op: logical.UpdateOperation, Path: "sys/namespaces/n1", Token: h.Root}); err != nil || (r != nil && r.IsError()) {
			panic(fmt.Sprint("namespace: ", err, r))
		}
		nsH = "n1/"
		for _, k := range disk.RawKeys("namespaces/") {
			if parts := strings.SplitN(k, "/", 3); len(parts) == 3 {
				kp = parts[0] + "/" + parts[1] + "/"
				break
			}
		}
		if kp == "" {
			panic("namespace storage prefix not found")
		}
	}
	rc.Cfg("in_namespace", nsH != "")
	rootDoNS := func(op logical.Operation, path string, data map[string]any) {
		r, err := h.Do("setup", Req{NS: nsH, Op: op, Path: path, Token: h.Root, Data: data})
		if err != nil || (r != nil && r.IsError()) {
			panic(fmt.Sprint("setup ", path, ": ", err, r))
		}
	}
	rootDoNS(logical.UpdateOperation, "sys/mounts/rec", map[string]any{"type": "rec"})
	rootDoNS(logical.UpdateOperation, "sys/policies/acl/p", map[string]any{"policy": c04Policy})
	rootDoNS(logical.UpdateOperation, "rec/data/x", map[string]any{"value": "v0"})
	baseTokKeys := len(disk.RawKeys(kp + "sys/token/id/"))
	cubbyPrefix := ""
	for _, k := range disk.RawKeys("core/") {
		_ = k
	}

	// ---- build the tree ----
	var all []*c04Tok
	ntok := 0
	mk := func(parent *c04Tok, orphan bool, tag string) *c04Tok {
		ntok++
		t := &c04Tok{name: fmt.Sprintf("t%d", ntok), parent: parent, orphan: orphan}
		data := map[string]any{"policies": []string{"p"}, "ttl": "1h"}
		if expiry {
			data["ttl"] = "10m"
		}
		if tp.Pick(5) == 4 {
			t.numUses = 6 + tp.Pick(4)
			data["num_uses"] = t.numUses
		}
		path := "auth/token/create"
		tokenFor := h.Root
		if parent != nil {
			tokenFor = parent.id
		}
		if orphan {
			path = "auth/token/create-orphan"
		}
		leasesBefore := disk.RawKeys(kp + "sys/expire/id/auth/token/")
		resp, err := h.Do(tag, Req{NS: nsH, Op: logical.UpdateOperation, Path: path, Token: tokenFor, Data: data})
		if err != nil || resp == nil || resp.Auth == nil {
			return nil
		}
		t.id, t.acc = resp.Auth.ClientToken, resp.Auth.Accessor
		if nl := added(disk.RawKeys(kp + "sys/expire/id/auth/token/"), leasesBefore); len(nl) == 1 {
			t.tokLease = strings.TrimPrefix(nl[0], kp+"sys/expire/id/")
		}
		if parent != nil {
			parent.children = append(parent.children, t)
		}
		return t
	}
	top := mk(nil, false, "setup")
	if top == nil {
		panic("cannot create top token")
	}
	all = append(all, top)
	frontier := []*c04Tok{top}
	depth := 1 + tp.Pick(3)
	for d := 0; d < depth; d++ {
		var next []*c04Tok
		for _, p := range frontier {
			if p.numUses > 0 {
				continue // use-limited tokens cannot create children
			}
			for c := 0; c < 1+tp.Pick(2); c++ {
				t := mk(p, tp.Pick(6) == 5, "setup")
				if t != nil {
					all = append(all, t)
					next = append(next, t)
				}
			}
		}
		frontier = next
	}
	for _, t := range all {
		if t.numUses > 0 {
			continue
		}
		if tp.Pick(2) == 0 {
			resp, err := h.Do("setup", Req{NS: nsH, Op: logical.ReadOperation, Path: "rec/creds/a", Token: t.id})
			if err == nil && resp != nil && resp.Data != nil {
				if id, ok := resp.Data["secret_id"].(string); ok {
					t.secrets = append(t.secrets, id)
				}
				if resp.Secret != nil {
					t.leases = append(t.leases, resp.Secret.LeaseID)
				}
			}
		}
		if tp.Pick(2) == 0 {
			if _, err := h.Do("setup", Req{NS: nsH, Op: logical.UpdateOperation, Path: "cubbyhole/mine", Token: t.id, Data: map[string]any{"v": "cubby-" + t.name}}); err == nil {
				t.cubby = true
			}
		}
	}
	for _, k := range disk.RawKeys(kp + "logical/") {
		if strings.HasSuffix(k, "/mine") {
			rest := k[len(kp+"logical/"):]
			cubbyPrefix = kp + "logical/" + rest[:strings.Index(rest, "/")+1]
		}
	}
	rc.Cfg("tokens", len(all))

	// ---- target and plan ----
	x := all[tp.Pick(len(all))]
	var sub []*c04Tok
	x.subtree(&sub)
	method := []string{"revoke", "self", "accessor", "orphan", "lease"}[tp.Pick(5)]
	if method == "lease" && x.tokLease == "" {
		method = "revoke"
	}
	if expiry {
		method = "expiry"
	}
	rc.Cfg("method", method)
	type result struct {
		ok        bool
		startStep int
		doneStep  int
		tries     int
	}
	var revs []*result
	revokeOn := func(hh *CoreH, tag string) (bool, string) {
		var r Req
		switch method {
		case "lease": // through the token's own lease
			r = Req{NS: nsH, Op: logical.UpdateOperation, Path: "sys/leases/revoke", Token: hh.Root, Data: map[string]any{"lease_id": x.tokLease}}
		case "revoke":
			r = Req{NS: nsH, Op: logical.UpdateOperation, Path: "auth/token/revoke", Token: hh.Root, Data: map[string]any{"token": x.id}}
		case "self":
			r = Req{NS: nsH, Op: logical.UpdateOperation, Path: "auth/token/revoke-self", Token: x.id}
		case "accessor":
			r = Req{NS: nsH, Op: logical.UpdateOperation, Path: "auth/token/revoke-accessor", Token: hh.Root, Data: map[string]any{"accessor": x.acc}}
		case "orphan":
			r = Req{NS: nsH, Op: logical.UpdateOperation, Path: "auth/token/revoke-orphan", Token: hh.Root, Data: map[string]any{"token": x.id}}
		}
		resp, err := hh.Do(tag, r)
		if err != nil {
			return false, err.Error()
		}
		if resp != nil && resp.IsError() {
			return false, resp.Error().Error()
		}
		return true, ""
	}
	revokeOnce := func(tag string) (bool, string) { return revokeOn(h, tag) }
	nRev := 1 + tp.Pick(2)
	if expiry {
		nRev = 0
	}
	nOther := 1 + tp.Pick(3)
	type other struct {
		kind string
		tok  *c04Tok
	}
	var others []other
	for i := 0; i < nOther; i++ {
		y := sub[tp.Pick(len(sub))]
		others = append(others, other{kind: []string{"child", "child", "use", "renew", "creds", "cubby"}[tp.Pick(6)], tok: y})
	}
	var plan []string
	for _, o := range others {
		plan = append(plan, o.kind+":"+o.tok.name)
	}
	rc.Cfg("plan", fmt.Sprintf("x=%s %s x%d | %s", x.name, method, nRev, strings.Join(plan, ",")))
	if faulty {
		s.SetFaults(30, 2, FaultErrNA)
	}
	retried := false
	logFrom := disk.LogLen()
	tidyBetween := faulty && tp.Pick(3) == 0
	tidyWait := 0
	if tidyBetween {
		tidyWait = []int{0, 6, 30}[tp.Pick(3)]
	}
	rc.Cfg("tidy_between_retries", tidyBetween)
	s.SwarmFreeze()
	rc.Cfg("sched", fmt.Sprintf("stall=%d yield_on_release=%v", s.FreezePermille, s.YieldOnRelease))
	s.SetControlled()
	for i := 0; i < nRev; i++ {
		i := i
		r := &result{}
		revs = append(revs, r)
		tag := fmt.Sprintf("r%d", i)
		s.Go(tag, func() {
			r.startStep = s.Steps
			for r.tries = 1; r.tries <= 6; r.tries++ {
				ok, msg := revokeOnce(tag)
				if ok {
					r.ok = true
					r.doneStep = s.Steps
					return
				}
				// a refused revocation by an already dead token (second
				// revoke-self, accessor gone) is fine too
				if strings.Contains(msg, "permission denied") || strings.Contains(msg, "invalid accessor") || strings.Contains(msg, "not found") {
					r.doneStep = s.Steps
					return
				}
				retried = true
				// in a third of the faulty runs the operator runs a token tidy
				// between the failed attempt and the retry (the tidy works on
				// whatever the interrupted revocation left behind)
				if tidyBetween {
					h.Do(tag+"tidy", Req{NS: nsH, Op: logical.UpdateOperation, Path: "auth/token/tidy", Token: h.Root})
					s.Probe("tidy_between_failed_revocation_and_retry")
					// let it run: a few cheap requests of this task give the tidy
					// goroutine its share of the schedule before the retry starts
					for w := 0; w < tidyWait; w++ {
						h.Do(tag+"wait", Req{NS: nsH, Op: logical.ReadOperation, Path: "rec/data/x", Token: h.Root})
					}
				}
			}
		})
	}
	var late []*c04Tok
	for i, o := range others {
		i, o := i, o
		tag := fmt.Sprintf("o%d", i)
		s.Go(tag, func() {
			switch o.kind {
			case "child":
				if o.tok.numUses > 0 {
					return
				}
				start := s.Steps
				resp, err := h.Do(tag, Req{NS: nsH, Op: logical.UpdateOperation, Path: "auth/token/create", Token: o.tok.id, Data: map[string]any{"policies": []string{"p"}, "ttl": "1h"}})
				if err == nil && resp != nil && resp.Auth != nil {
					c := &c04Tok{name: fmt.Sprintf("late%d", i), id: resp.Auth.ClientToken, acc: resp.Auth.Accessor, parent: o.tok, late: true, task: tag}
					_ = start
					s.mu.Lock()
					o.tok.children = append(o.tok.children, c)
					late = append(late, c)
					s.mu.Unlock()
				}
			case "use":
				h.Do(tag, Req{NS: nsH, Op: logical.ReadOperation, Path: "rec/data/x", Token: o.tok.id})
			case "renew":
				h.Do(tag, Req{NS: nsH, Op: logical.UpdateOperation, Path: "auth/token/renew-self", Token: o.tok.id})
			case "creds":
				resp, err := h.Do(tag, Req{NS: nsH, Op: logical.ReadOperation, Path: "rec/creds/a", Token: o.tok.id})
				if err == nil && resp != nil && resp.Data != nil && resp.Secret != nil {
					if id, ok := resp.Data["secret_id"].(string); ok {
						s.mu.Lock()
						o.tok.secrets = append(o.tok.secrets, id)
						s.mu.Unlock()
					}
				}
			case "cubby":
				if _, err := h.Do(tag, Req{NS: nsH, Op: logical.UpdateOperation, Path: "cubbyhole/late", Token: o.tok.id, Data: map[string]any{"v": "x"}}); err == nil {
					o.tok.cubby = true
				}
			}
		})
	}
	s.Run()
	s.SetFaults(0, 0)
	if expiry {
		s.PassThrough()
		s.Advance(11 * time.Minute)
		s.SetControlled()
	}
	s.Drain(3*time.Minute, 10*time.Second)
	s.PassThrough()
	if s.Trunc {
		return
	}
	revoked := expiry
	for _, r := range revs {
		if r.ok {
			revoked = true
		}
	}
	if !revoked {
		rc.Res.Sample = map[string]any{"note": "no revocation reported success", "plan": plan}
		return
	}
	if retried {
		s.Probe("revocation_retried")
	}
	all = append(all, late...)
	// dead set
	var dead []*c04Tok
	if method == "orphan" {
		dead = []*c04Tok{x}
	} else if expiry {
		dead = all // everything had a 10 minute TTL
	} else {
		x.subtree(&dead)
	}
	isDead := map[*c04Tok]bool{}
	for _, d := range dead {
		isDead[d] = true
	}
	_ = late
	// relistVerdict tells the documented creation/teardown race (F3) from
	// any other way a token created during the revocation can survive. The
	// tree walk revokes a parent only right after a listing of the parent's
	// children that shows nothing it has not already visited; so a surviving
	// late child was either invisible to that final listing (its parent
	// index entry written afterwards) or visible to the walk while its token
	// entry was not yet written. If, instead, the final listing of the
	// parent's children before the parent's entry was deleted DID show
	// children the walk had not visited before, the walk revoked a parent
	// without looking again - not the documented race.
	relistVerdict := func(d *c04Tok) string {
		ops := disk.OpsCopy()
		pfx := kp + "sys/token/parent/"
		dir, putAt := "", -1
		for i, o := range ops {
			if o.Task == d.task && (o.Op == "put" || o.Op == "tx-put") && strings.HasPrefix(o.Key, pfx) && !o.Err {
				dir, putAt = o.Key[:strings.LastIndex(o.Key, "/")+1], i
				break
			}
		}
		if dir == "" {
			return "undetermined:no-parent-index-write"
		}
		salted := strings.TrimSuffix(strings.TrimPrefix(dir, pfx), "/")
		delAt := -1
		for i, o := range ops {
			// (an attempt that an injected storage error refused counts: it
			// marks the point where the walk had decided to remove the parent)
			if (o.Op == "del" || o.Op == "tx-del") && o.Key == kp+"sys/token/id/"+salted {
				delAt = i
			}
		}
		if delAt < 0 {
			return "undetermined:parent-entry-not-deleted"
		}
		isList := func(o DiskOp) bool {
			switch o.Op {
			case "list", "page", "tx-list", "tx-page":
				return !o.Err && o.N >= 0 && (o.Key == dir || strings.HasPrefix(o.Key, dir+"|"))
			}
			return false
		}
		// the listing that preceded the deletion, by the walk that deleted
		final := -1
		for i := 0; i < delAt; i++ {
			if isList(ops[i]) && ops[i].Task != d.task && (ops[delAt].Task == "" || ops[i].Task == ops[delAt].Task) {
				final = i
			}
		}
		if final < 0 {
			return "undetermined:parent-children-never-listed"
		}
		seen := map[string]bool{}
		for i := 0; i < final; i++ {
			if isList(ops[i]) && ops[i].Task == ops[final].Task {
				for _, e := range ops[i].Res {
					seen[e] = true
				}
			}
		}
		fresh := 0
		for _, e := range ops[final].Res {
			if !seen[e] {
				fresh++
			}
		}
		switch {
		case fresh > 0:
			return "parent-revoked-although-final-listing-showed-unvisited-children"
		case putAt > final:
			return "child-index-written-after-final-listing"
		default:
			return "child-listed-before-its-entry-was-written"
		}
	}
	sigFor := func(d *c04Tok) map[string]any {
		if d.late {
			return map[string]any{
				"method":                               method,
				"token_created_during_revocation":      true,
				"revocation_retried_after_storage_err": retried,
				"multi_use_token":                      d.numUses > 0,
				"is_target":                            d == x,
				"tree_walk":                            relistVerdict(d),
			}
		}
		return map[string]any{
			"method":                               method,
			"token_created_during_revocation":      d.late,
			"revocation_retried_after_storage_err": retried,
			"multi_use_token":                      d.numUses > 0,
			"is_target":                            d == x,
		}
	}
	probeDead := func(hh *CoreH, phase string) bool {
		for _, d := range dead {
			resp, err := hh.Do("probe", Req{NS: nsH, Op: logical.ReadOperation, Path: "auth/token/lookup-self", Token: d.id})
			if !isPermDenied(resp, err) {
				sig := sigFor(d)
				sig["phase"] = phase
				s.Violate("C04", "revoked-token-accepted", sig, "%s: token %s (in the revoked tree of %s via %s) is still accepted: %v %v; plan %v", phase, d.name, x.name, method, resp, err, plan)
				return false
			}
			resp, err = hh.Do("probe", Req{NS: nsH, Op: logical.ReadOperation, Path: "rec/data/x", Token: d.id})
			if !isPermDenied(resp, err) && err == nil {
				sig := sigFor(d)
				sig["phase"] = phase
				s.Violate("C04", "revoked-token-accepted", sig, "%s: token %s still reads data after the revocation of %s", phase, d.name, x.name)
				return false
			}
			resp, err = hh.Do("probe", Req{NS: nsH, Op: logical.UpdateOperation, Path: "auth/token/lookup-accessor", Token: hh.Root, Data: map[string]any{"accessor": d.acc}})
			if err == nil && resp != nil && !resp.IsError() {
				s.Probe("dead_token_accessor_still_resolves") // not part of the statement
			}
		}
		return true
	}
	// storage operations up to here belong to the revocations and the
	// concurrent requests; the probes below can themselves trigger clean-up
	// (lookup of a half-removed token revokes it), which must not be
	// mistaken for work of the acknowledged revocation
	opsBeforeProbes := len(disk.OpsCopy())
	if !probeDead(h, "after-drain") {
		return
	}
	// storage: token entries and cubbyhole folders
	alive := 0
	aliveCubby := 0
	for _, t := range all {
		if !isDead[t] {
			alive++
			if t.cubby {
				aliveCubby++
			}
		}
	}
	if retried || s.Faults["err-na"] > 0 {
		// after injected storage errors the client retried until success, so
		// the end state must be clean all the same
		s.Probe("checked_after_faults")
	}
	gotTok := len(disk.RawKeys(kp+"sys/token/id/")) - baseTokKeys
	if gotTok < alive {
		// fewer entries than expected: a token whose creation raced with the
		// revocation was swept although it was acknowledged - not a matter of
		// this property (revoked tokens stay dead)
		s.Probe("acknowledged_token_swept")
	}
	if gotTok > alive {
		// Entries of dead tokens that stay behind (marked revocation-pending,
		// refused by every request) are storage garbage, not a violation of
		// this property's statement; counted as a probe.
		s.Probe("dead_token_entries_left_in_storage")
	}
	if cubbyPrefix != "" {
		folders := map[string]bool{}
		for _, k := range disk.RawKeys(cubbyPrefix) {
			rest := k[len(cubbyPrefix):]
			if i := strings.Index(rest, "/"); i > 0 {
				folders[rest[:i]] = true
			}
		}
		// attribute folders to tokens: the folder name is the token's inner id
		deadFolder := map[string]*c04Tok{}
		for _, d := range dead {
			inner := d.id
			if vault.IsSSCToken(inner) {
				if x, err := h.Core.DecodeSSCToken(inner); err == nil {
					inner = x
				}
			}
			if i := strings.Index(inner, "."); i >= 0 {
				inner = inner[i+1:]
			}
			deadFolder[inner] = d
		}
		for f := range folders {
			d := deadFolder[f]
			if d == nil {
				continue
			}
			// written by a request already in flight after the revocation
			// had cleared this folder?
			lastScan := -1
			for _, op := range []string{"tx-page", "page", "list", "tx-list"} {
				if st := disk.LastOpStep(op, cubbyPrefix+f+"/"); st > lastScan {
					lastScan = st
				}
			}
			late := lastScan >= 0
			for _, k := range disk.RawKeys(cubbyPrefix + f + "/") {
				if disk.LastPutStep(k) < lastScan {
					late = false
				}
			}
			s.Violate("C04", "cubbyhole-remains", map[string]any{"written_by_inflight_request_after_cubbyhole_cleared": late, "revocation_retried_after_storage_err": retried},
				"the cubbyhole of revoked token %s still holds %v after the revocation of %s (%s) reported success", d.name, disk.RawKeys(cubbyPrefix+f+"/"), x.name, method)
			return
		}
	}
	// leases under dead tokens were revoked at the backend
	rec.mu.Lock()
	var unrevoked []string
	lateLease := false
	for _, d := range dead {
		for _, id := range d.secrets {
			if rec.Revoked[id] == 0 {
				unrevoked = append(unrevoked, d.name+":"+id)
			}
		}
	}
	rec.mu.Unlock()
	sort.Strings(unrevoked)
	if len(unrevoked) > 0 {
		// was the lease registered after the revocation listed the token's leases?
		ops := disk.OpsCopy()[:opsBeforeProbes]
		for _, k := range disk.RawKeys(kp + "sys/expire/token/") {
			dir := k[:strings.LastIndex(k, "/")+1]
			put := -1
			for i, o := range ops {
				if (o.Op == "put" || o.Op == "tx-put") && o.Key == k && !o.Err {
					put = i
					break
				}
			}
			if put < 0 {
				continue
			}
			before, after := false, false
			for i, o := range ops {
				if o.Op == "list" && o.Key == dir {
					if i < put {
						before = true
					} else {
						after = true
					}
				}
			}
			if before && !after {
				lateLease = true
			}
		}
		s.Violate("C04", "lease-not-revoked-with-token", map[string]any{"method": method, "lease_registered_after_revocation_listed_leases": lateLease},
			"secrets leased under revoked tokens were never revoked at the backend: %v", unrevoked)
		return
	}
	// and it stays that way across a restart
	nh, err := Reboot(disk.Fork(s), h)
	if err != nil {
		panic(err)
	}
	old := h
	h = nh
	old.Shutdown()
	if !probeDead(h, "after-restart") {
		return
	}
	// ---- a crash at any point of the revocation, then the revocation is
	// issued again on the restarted node: "an earlier revocation attempt was
	// interrupted ... and across restarts". Every durable prefix of the phase
	// above (sampled when there are many) becomes a fresh node; the client,
	// who got no answer, repeats the request until it is acknowledged (or the
	// token is reported gone); afterwards the whole tree is dead there too.
	if !expiry && !faulty && nRev == 1 && tp.Pick(2) == 0 {
		to := disk.LogLen()
		stride := 1
		if to-logFrom > 16 {
			stride = (to - logFrom + 15) / 16
		}
		for k := logFrom + tp.Pick(stride); k < to && s.Viol == nil; k += stride {
			fd := disk.ForkAt(k, s)
			ch, err := Reboot(fd, h)
			if err != nil {
				s.Violate("C04", "unbootable-after-crash", map[string]any{"method": method}, "reboot on write prefix %d of the revocation phase failed: %v", k-logFrom, err)
				return
			}
			acked := false
			for try := 0; try < 4 && !acked; try++ {
				// only a revocation that REPORTS success counts (a half-revoked
				// token refusing its own revoke-self is not an acknowledgement)
				acked, _ = revokeOn(ch, fmt.Sprintf("again%d", try))
			}
			s.SetControlled()
			s.Drain(3*time.Minute, 10*time.Second)
			s.PassThrough()
			s.Faults["crash"]++
			if acked {
				if !probeDead(ch, fmt.Sprintf("after a crash at write %d of %d of the revocation phase and a repeated revocation", k-logFrom, to-logFrom)) {
					ch.Shutdown()
					return
				}
				// leases of the dead tokens are gone on the restarted node as well
				for _, d := range dead {
					for _, lid := range d.leases {
						lr, lerr := ch.Do("leasechk", Req{NS: nsH, Op: logical.UpdateOperation, Path: "sys/leases/lookup", Token: ch.Root, Data: map[string]any{"lease_id": lid}})
						if lerr == nil && lr != nil && !lr.IsError() && lr.Data != nil {
							s.Violate("C04", "lease-not-revoked-with-token", map[string]any{"method": method, "lease_registered_after_revocation_listed_leases": false, "after_crash_and_repeated_revocation": true},
								"after a crash at write %d of %d of the revocation phase and a repeated, acknowledged revocation of %s the lease %s of dead token %s still exists: %v", k-logFrom, to-logFrom, x.name, lid, d.name, lr.Data)
							ch.Shutdown()
							return
						}
					}
				}
				s.Probe("crash_prefix_then_revoked_again")
			} else {
				s.Probe("repeated_revocation_never_acknowledged")
			}
			ch.Shutdown()
		}
	}
	rc.Res.Sample = map[string]any{"tokens": len(all), "target": x.name, "method": method, "dead": len(dead), "plan": plan, "late_children": len(late)}
	s.ProbeN("late_children", len(late))
}
