package verifsim

import (
	"context"
	crand "crypto/rand"
	"encoding/binary"
	"fmt"
	"io"
	mrand "math/rand/v2"
	"os"
	"strconv"
	"sync"
	"time"

	log "github.com/hashicorp/go-hclog"
	"github.com/openbao/openbao/v2/internal/audit"
	"github.com/openbao/openbao/v2/internal/command/server"
	"github.com/openbao/openbao/v2/internal/helper/configutil"
	"github.com/openbao/openbao/v2/internal/helper/namespace"
	"github.com/openbao/openbao/v2/internal/helper/testhelpers/corehelpers"
	"github.com/openbao/openbao/v2/internal/vault"
	vaultseal "github.com/openbao/openbao/v2/internal/vault/seal"
	"github.com/openbao/openbao/sdk/v2/logical"
	"github.com/openbao/openbao/sdk/v2/physical"
)

// ---- seeded randomness ----

type seededReader struct {
	mu  sync.Mutex
	rng *mrand.ChaCha8
}

func (r *seededReader) Read(p []byte) (int, error) {
	r.mu.Lock()
	defer r.mu.Unlock()
	return r.rng.Read(p)
}

var realRandReader = crand.Reader

// SeedRandom replaces crypto/rand.Reader by a ChaCha8 stream for the run.
func SeedRandom(seed uint64) (restore func()) {
	var key [32]byte
	binary.LittleEndian.PutUint64(key[:], seed)
	binary.LittleEndian.PutUint64(key[8:], seed^0xa5a5a5a5deadbeef)
	crand.Reader = &seededReader{rng: mrand.NewChaCha8(key)}
	return func() { crand.Reader = realRandReader }
}

var _ io.Reader = (*seededReader)(nil)

// ---- core construction ----

type CoreOpts struct {
	DisableCache     bool
	CacheSize        int
	Plain            bool // hide the transactional interface of the disk
	DisableSSC       bool
	Shares, Thresh   int
	DefaultLeaseTTL  time.Duration
	MaxLeaseTTL      time.Duration
	Logical          map[string]logical.Factory
	Credential       map[string]logical.Factory
	Audit            map[string]audit.Factory
	ExpWorkers       int
	RevokeRetryBase  time.Duration
	EnableRaw        bool
	DisableKeyChecks bool
	// HA: a shared lock service and this node's advertised address (two Cores
	// over one simulated disk form an active/standby pair)
	HA       physical.HABackend
	Redirect string
	// AutoSealSecret, if set, gives the node an auto-unseal style seal (the
	// repo's test KMS wrapper keyed by this secret): the root key is stored
	// wrapped by the "KMS", unseal needs no shares, the operator holds
	// recovery keys instead
	AutoSealSecret []byte
}

// CoreH is a booted core with what the harness knows about it.
type CoreH struct {
	Core  *vault.Core
	Disk  *Disk
	Keys  [][]byte
	Root  string
	Opts  CoreOpts
	reqN  int
	reqMu sync.Mutex
}

func testLogger() log.Logger {
	if os.Getenv("VERIF_LOG") != "" {
		return log.New(&log.LoggerOptions{Level: log.Trace, Output: os.Stderr})
	}
	return log.NewNullLogger()
}

func coreConfig(d *Disk, o CoreOpts) *vault.CoreConfig {
	var phys physical.Backend = d
	if o.Plain {
		phys = PlainDisk{d}
	}
	conf := &vault.CoreConfig{
		Physical:                  phys,
		AuditBackends:             map[string]audit.Factory{},
		LogicalBackends:           map[string]logical.Factory{},
		CredentialBackends:        map[string]logical.Factory{},
		Logger:                    testLogger(),
		NumRollbackWorkers:        2,
		BuiltinRegistry:           corehelpers.NewMockBuiltinRegistry(),
		DisableCache:              o.DisableCache,
		CacheSize:                 o.CacheSize,
		DisableSSCTokens:          o.DisableSSC,
		DefaultLeaseTTL:           o.DefaultLeaseTTL,
		MaxLeaseTTL:               o.MaxLeaseTTL,
		NumExpirationWorkers:      o.ExpWorkers,
		ExpirationRevokeRetryBase: o.RevokeRetryBase,
		EnableRaw:                 o.EnableRaw,
		DisableKeyEncodingChecks:  o.DisableKeyChecks,
		RollbackPeriod:            time.Hour,
	}
	if len(o.AutoSealSecret) > 0 {
		access, _ := vaultseal.NewTestSeal(&vaultseal.TestSealOpts{Secret: o.AutoSealSecret, Logger: testLogger()})
		as, err := vault.NewAutoSeal(access)
		if err != nil {
			panic(err)
		}
		conf.Seal = as
	}
	if o.HA != nil {
		conf.HAPhysical = o.HA
		conf.RedirectAddr = o.Redirect
	}
	if conf.NumExpirationWorkers == 0 {
		conf.NumExpirationWorkers = 4
	}
	if len(o.Audit) > 0 {
		rc := new(server.Config)
		rc.SharedConfig = new(configutil.SharedConfig)
		rc.UnsafeAllowAPIAuditCreation = true
		conf.RawConfig = rc
	}
	for k, v := range o.Logical {
		conf.LogicalBackends[k] = v
	}
	for k, v := range o.Credential {
		conf.CredentialBackends[k] = v
	}
	for k, v := range o.Audit {
		conf.AuditBackends[k] = v
	}
	return conf
}

// BootCore creates, initialises and unseals a Core over the given disk
// (pass-through mode is expected).
func BootCore(d *Disk, o CoreOpts) (*CoreH, error) {
	return BootCoreWith(d, o, nil)
}

// BootCoreWith is BootCore with a callback that receives the handle as soon
// as the Core object exists (before init), for monitors.
func BootCoreWith(d *Disk, o CoreOpts, early func(*CoreH)) (*CoreH, error) {
	if o.Shares == 0 {
		o.Shares, o.Thresh = 1, 1
	}
	c, err := vault.NewCore(coreConfig(d, o))
	if err != nil {
		return nil, fmt.Errorf("NewCore: %w", err)
	}
	if early != nil {
		early(&CoreH{Core: c, Disk: d, Opts: o})
	}
	ctx := namespace.RootContext(context.Background())
	res, err := c.Initialize(ctx, &vault.InitParams{
		BarrierConfig:  &vault.SealConfig{SecretShares: o.Shares, SecretThreshold: o.Thresh},
		RecoveryConfig: &vault.SealConfig{SecretShares: o.Shares, SecretThreshold: o.Thresh},
	})
	if err != nil {
		return nil, fmt.Errorf("Initialize: %w", err)
	}
	h := &CoreH{Core: c, Disk: d, Keys: res.SecretShares, Root: res.RootToken, Opts: o}
	if len(o.AutoSealSecret) > 0 {
		h.Keys = res.RecoveryShares
	}
	if early != nil {
		early(h)
	}
	if err := h.Unseal(); err != nil {
		return nil, err
	}
	return h, nil
}

// Reboot builds a fresh Core (no memory of the old one) over a disk that
// holds some durable prefix, and unseals it with the known shares.
func Reboot(d *Disk, old *CoreH) (*CoreH, error) {
	c, err := vault.NewCore(coreConfig(d, old.Opts))
	if err != nil {
		return nil, fmt.Errorf("NewCore(reboot): %w", err)
	}
	h := &CoreH{Core: c, Disk: d, Keys: old.Keys, Root: old.Root, Opts: old.Opts}
	if err := h.Unseal(); err != nil {
		return nil, err
	}
	return h, nil
}

func (h *CoreH) Unseal() error {
	if len(h.Opts.AutoSealSecret) > 0 {
		if err := h.Core.UnsealWithStoredKeys(namespace.RootContext(context.Background())); err != nil {
			return fmt.Errorf("unseal with stored keys: %w", err)
		}
		if h.Core.Sealed() {
			return fmt.Errorf("core still sealed after unsealing with stored keys")
		}
		return nil
	}
	for i := 0; i < h.Opts.Thresh && i < len(h.Keys); i++ {
		k := append([]byte{}, h.Keys[i]...)
		if _, err := h.Core.Unseal(k); err != nil {
			return fmt.Errorf("unseal: %w", err)
		}
	}
	if h.Core.Sealed() {
		return fmt.Errorf("core still sealed after %d shares", h.Opts.Thresh)
	}
	return nil
}

func (h *CoreH) Shutdown() {
	defer func() { recover() }()
	h.Core.Shutdown()
}

// Req issues a request the way the HTTP layer would (minus HTTP).
type Req struct {
	Op      logical.Operation
	Path    string
	Token   string
	Data    map[string]any
	NS      string // namespace header
	WrapTTL time.Duration
	WrapFmt string // "" | "jwt"
	Remote  string
	// Via: how the token travels, as the HTTP layer hands it over: "" (only
	// ClientToken set), "header" (X-Vault-Token header + source), "bearer"
	// (Authorization: Bearer header + source)
	Via string
}

func (h *CoreH) nextReqID(tag string) string {
	h.reqMu.Lock()
	defer h.reqMu.Unlock()
	h.reqN++
	return tag + "-" + strconv.Itoa(h.reqN)
}

// Do runs a request to completion on the calling goroutine.
func (h *CoreH) Do(tag string, r Req) (*logical.Response, error) {
	id := h.nextReqID(tag)
	ctx := context.WithValue(context.Background(), logical.CtxKeyInFlightRequestID{}, id)
	if r.NS != "" {
		ctx = namespace.ContextWithNamespaceHeader(ctx, r.NS)
	}
	req := &logical.Request{
		ID:          id,
		Operation:   r.Op,
		Path:        r.Path,
		ClientToken: r.Token,
		Data:        r.Data,
		Connection:  &logical.Connection{RemoteAddr: "127.0.0.1"},
	}
	if r.Remote != "" {
		req.Connection.RemoteAddr = r.Remote
	}
	if r.WrapTTL > 0 {
		req.WrapInfo = &logical.RequestWrapInfo{TTL: r.WrapTTL, Format: r.WrapFmt}
	}
	if r.Token != "" {
		switch r.Via {
		case "header":
			req.Headers = map[string][]string{"X-Vault-Token": {r.Token}, "X-Request-Tag": {"plain-header-value"}}
			req.ClientTokenSource = logical.ClientTokenFromVaultHeader
		case "bearer":
			req.Headers = map[string][]string{"Authorization": {"Basic cGxhaW46cGxhaW4=", "Bearer " + r.Token}, "X-Request-Tag": {"plain-header-value"}}
			req.ClientTokenSource = logical.ClientTokenFromAuthzHeader
		}
	}
	return h.Core.HandleRequest(ctx, req)
}

// Root convenience wrappers (setup phase).
func (h *CoreH) RootWrite(path string, data map[string]any) (*logical.Response, error) {
	resp, err := h.Do("setup", Req{Op: logical.UpdateOperation, Path: path, Token: h.Root, Data: data})
	if err == nil && resp != nil && resp.IsError() {
		err = resp.Error()
	}
	return resp, err
}

func (h *CoreH) RootRead(path string) (*logical.Response, error) {
	resp, err := h.Do("setup", Req{Op: logical.ReadOperation, Path: path, Token: h.Root})
	if err == nil && resp != nil && resp.IsError() {
		err = resp.Error()
	}
	return resp, err
}

func (h *CoreH) Mount(path, typ string, opts map[string]any) error {
	d := map[string]any{"type": typ}
	for k, v := range opts {
		d[k] = v
	}
	_, err := h.RootWrite("sys/mounts/"+path, d)
	return err
}

func (h *CoreH) EnableAuth(path, typ string) error {
	_, err := h.RootWrite("sys/auth/"+path, map[string]any{"type": typ})
	return err
}

func (h *CoreH) Policy(name, hcl string) error {
	_, err := h.RootWrite("sys/policies/acl/"+name, map[string]any{"policy": hcl})
	return err
}

// CreateToken creates a token as root with the given parameters.
func (h *CoreH) CreateToken(parent string, data map[string]any) (string, string, error) {
	if parent == "" {
		parent = h.Root
	}
	resp, err := h.Do("setup", Req{Op: logical.UpdateOperation, Path: "auth/token/create", Token: parent, Data: data})
	if err != nil {
		return "", "", err
	}
	if resp == nil || resp.Auth == nil {
		if resp != nil && resp.IsError() {
			return "", "", resp.Error()
		}
		return "", "", fmt.Errorf("no auth in token create response")
	}
	return resp.Auth.ClientToken, resp.Auth.Accessor, nil
}
