package verifsim

import (
	"encoding/json"
	"fmt"
	"sort"
	"strconv"
	"strings"
	"time"

	"github.com/anishathalye/porcupine"
	"github.com/openbao/openbao/sdk/v2/logical"
	"github.com/openbao/openbao/v2/internal/builtin/logical/kv"
)

// C14 — versioned KV is a linearizable versioned register with exact
// check-and-set.
//
// The real kv-v2 backend is mounted in the simulated Core. 2-4 client tasks
// issue write (no cas / cas=v), patch (no cas / cas=v), read (latest / version
// v), delete, undelete, destroy, metadata update (max_versions, cas_required,
// custom_metadata) and metadata-delete on 1-2 paths, interleaved at
// storage-operation and lock-hand-off granularity; cache on/off, transactional
// and plain disk; max_versions and cas_required are also set sequentially
// before the race, on the key or in the engine configuration; in fault runs
// single storage operations inside requests fail (err-na). Every written
// datum is unique. A sequential tail exercises delete_version_after on the
// simulated clock.
//
// Oracle: the recorded history (invoke / return stamped with a global event
// counter) is checked with porcupine against a sequential model per path:
// successful writes get consecutive versions; a cas write succeeds iff the
// supplied version is the current one; read v returns the v-th write's data
// unless deleted / destroyed / pruned; a failed operation changes nothing.

func init() {
	register(&Scenario{Prop: "C14", Name: "kv2-linearizable", Run: runC14})
}

type kvVer struct {
	Data      string `json:"d"`
	Deleted   bool   `json:"x,omitempty"`
	Destroyed bool   `json:"y,omitempty"`
	// Damaged: a destroy / metadata delete naming this version failed half-way
	// on non-transactional storage (data removed, metadata still lists it);
	// the statement only promises that a failed WRITE changes nothing
	Damaged bool `json:"z,omitempty"`
}

type kvState struct {
	Cur    int            `json:"c"`
	Vers   map[int]*kvVer `json:"v"`
	Max    int            `json:"m"`
	CasReq bool           `json:"r"`
	Exists bool           `json:"e,omitempty"` // key metadata exists
	Custom string         `json:"u,omitempty"` // custom_metadata["m"]
	// engine configuration (constant during a run)
	CfgMax int  `json:"M,omitempty"`
	CfgCas bool `json:"R,omitempty"`
}

func (s kvState) clone() kvState {
	n := kvState{Cur: s.Cur, Max: s.Max, CasReq: s.CasReq, Exists: s.Exists, Custom: s.Custom, CfgMax: s.CfgMax, CfgCas: s.CfgCas, Vers: map[int]*kvVer{}}
	for k, v := range s.Vers {
		c := *v
		n.Vers[k] = &c
	}
	return n
}

func (s kvState) key() string {
	b, _ := json.Marshal(s)
	return string(b)
}

type kvIn struct {
	Op      string // write patch read delete undelete destroy purge meta
	Path    string
	Cas     int    // -1: none
	Version int    // 0: latest
	More    string // delete / undelete / destroy: further versions named in the same request after Version ("3,1"), in request order
	Data    string
	PKey    string // patch: the field that is set to Data
	// meta: -1 = not part of the request
	MaxV   int
	CasR   int
	Custom string
}

// versions named by a delete / undelete / destroy request, in request order
func (in kvIn) named(cur int) []int {
	v := in.Version
	if v == 0 {
		v = cur
	}
	out := []int{v}
	for _, f := range strings.Split(in.More, ",") {
		if n, err := strconv.Atoi(f); err == nil {
			out = append(out, n)
		}
	}
	return out
}

type kvOut struct {
	Err       string // "" | cas | notfound | other
	Found     bool
	Data      string // canonical rendering of the data map
	Deleted   bool
	Destroyed bool
	Version   int
	Custom    string
	// Faulted: a storage error was injected somewhere while this request ran
	// (only then may a read fail with an internal error)
	Faulted bool
}

// kvCanon renders a data map canonically ("a=1,b=2").
func kvCanon(m map[string]string) string {
	var ks []string
	for k := range m {
		ks = append(ks, k)
	}
	sort.Strings(ks)
	var sb strings.Builder
	for i, k := range ks {
		if i > 0 {
			sb.WriteByte(',')
		}
		sb.WriteString(k + "=" + m[k])
	}
	return sb.String()
}

func kvParse(c string) map[string]string {
	m := map[string]string{}
	if c == "" {
		return m
	}
	for _, kv := range strings.Split(c, ",") {
		if i := strings.IndexByte(kv, '='); i > 0 {
			m[kv[:i]] = kv[i+1:]
		}
	}
	return m
}

// kvSteps returns every state the register may be in after the operation.
// A failed WRITE must have changed nothing (the property's clause); a failed
// delete / undelete / destroy / metadata delete may or may not have taken
// effect (e.g. destroy marks the version, then removes its data).
func kvSteps(st kvState, in kvIn, out kvOut) []kvState {
	if out.Err == "other" {
		if in.Op == "read" && !out.Faulted {
			// a read that fails although no storage error was injected: legal
			// only for a version that a failed destroy / metadata delete left
			// half-removed; anything else (e.g. data pruned by a failed write
			// while the metadata still lists the version) is a violation
			v := in.Version
			if v == 0 {
				v = st.Cur
			}
			if ver := st.Vers[v]; ver != nil && ver.Damaged {
				return []kvState{st}
			}
			return nil
		}
		if in.Op == "destroy" || in.Op == "purge" {
			ok := out
			ok.Err = ""
			res := []kvState{st}
			if good, n := kvStep(st, in, ok); good {
				res = append(res, n)
			}
			d := st.clone()
			named := map[int]bool{}
			for _, v := range in.named(st.Cur) {
				named[v] = true
			}
			for v, ver := range d.Vers {
				if in.Op == "purge" || named[v] {
					ver.Damaged = true
				}
			}
			return append(res, d)
		}
		if in.Op == "write" || in.Op == "patch" || in.Op == "read" {
			return []kvState{st}
		}
		ok := out
		ok.Err = ""
		if good, n := kvStep(st, in, ok); good {
			return []kvState{st, n}
		}
		return []kvState{st}
	}
	if good, n := kvStep(st, in, out); good {
		return []kvState{n}
	}
	return nil
}

// kvStep is the deterministic part of the specification.
func kvStep(st kvState, in kvIn, out kvOut) (bool, kvState) {
	if out.Err == "other" {
		return true, st
	}
	switch in.Op {
	case "write", "patch":
		if in.Op == "patch" && !st.Exists {
			return out.Err == "notfound", st
		}
		casOK := true
		if in.Cas >= 0 {
			casOK = in.Cas == st.Cur
		} else if st.CasReq || st.CfgCas {
			casOK = false
		}
		if !casOK {
			return out.Err == "cas", st
		}
		data := "v=" + in.Data
		if in.Op == "patch" {
			cur := st.Vers[st.Cur]
			if cur == nil || cur.Deleted || cur.Destroyed {
				return out.Err == "notfound", st
			}
			m := kvParse(cur.Data)
			m[in.PKey] = in.Data
			data = kvCanon(m)
		}
		if out.Err != "" {
			return false, st
		}
		n := st.clone()
		n.Exists = true
		n.Cur++
		n.Vers[n.Cur] = &kvVer{Data: data}
		max := n.Max
		if n.CfgMax > max {
			max = n.CfgMax
		}
		if max == 0 {
			max = 10
		}
		for v := range n.Vers {
			if v <= n.Cur-max {
				delete(n.Vers, v)
			}
		}
		return out.Version == n.Cur, n
	case "read":
		if out.Err != "" {
			return false, st
		}
		v := in.Version
		if v == 0 {
			v = st.Cur
		}
		ver := st.Vers[v]
		if ver == nil {
			return !out.Found, st
		}
		if ver.Destroyed || ver.Deleted {
			return out.Found && out.Data == "" && out.Version == v && out.Deleted == ver.Deleted && out.Destroyed == ver.Destroyed && out.Custom == st.Custom, st
		}
		return out.Found && out.Data == ver.Data && out.Version == v && !out.Deleted && !out.Destroyed && out.Custom == st.Custom, st
	case "delete":
		if out.Err != "" {
			return false, st
		}
		n := st.clone()
		for _, v := range in.named(st.Cur) {
			if ver := n.Vers[v]; ver != nil && !ver.Destroyed {
				ver.Deleted = true
			}
		}
		return true, n
	case "undelete":
		if out.Err != "" {
			return false, st
		}
		n := st.clone()
		for _, v := range in.named(st.Cur) {
			if ver := n.Vers[v]; ver != nil && !ver.Destroyed {
				ver.Deleted = false
			}
		}
		return true, n
	case "destroy":
		if out.Err != "" {
			return false, st
		}
		n := st.clone()
		for _, v := range in.named(st.Cur) {
			if ver := n.Vers[v]; ver != nil {
				ver.Destroyed = true // (a deletion mark, if any, stays)
				ver.Data = ""
			}
		}
		return true, n
	case "purge":
		if out.Err != "" {
			return false, st
		}
		n := kvState{Vers: map[int]*kvVer{}, CfgMax: st.CfgMax, CfgCas: st.CfgCas}
		return true, n
	case "meta":
		if out.Err != "" {
			return false, st
		}
		n := st.clone()
		n.Exists = true
		if in.MaxV >= 0 {
			n.Max = in.MaxV
		}
		if in.CasR >= 0 {
			n.CasReq = in.CasR == 1
		}
		if in.Custom != "" {
			n.Custom = in.Custom
		}
		return true, n
	}
	return false, st
}

var kvNDModel = porcupine.NondeterministicModel{
	Partition: func(history []porcupine.Operation) [][]porcupine.Operation {
		m := map[string][]porcupine.Operation{}
		for _, o := range history {
			p := o.Input.(kvIn).Path
			m[p] = append(m[p], o)
		}
		var keys []string
		for k := range m {
			keys = append(keys, k)
		}
		sort.Strings(keys)
		var out [][]porcupine.Operation
		for _, k := range keys {
			out = append(out, m[k])
		}
		return out
	},
	Init: func() []any { return []any{kvState{Vers: map[int]*kvVer{}}.key()} },
	Step: func(state, input, output any) []any {
		var st kvState
		json.Unmarshal([]byte(state.(string)), &st)
		if st.Vers == nil {
			st.Vers = map[int]*kvVer{}
		}
		var out []any
		for _, n := range kvSteps(st, input.(kvIn), output.(kvOut)) {
			out = append(out, n.key())
		}
		return out
	},
	Equal: func(a, b any) bool { return a.(string) == b.(string) },
	DescribeOperation: func(input, output any) string {
		return fmt.Sprintf("%+v -> %+v", input, output)
	},
}

func runC14(rc *RunCtx) {
	s, tp := rc.S, rc.S.Tape
	opts := CoreOpts{DisableCache: tp.Pick(2) == 1, Plain: tp.Pick(2) == 1, Logical: map[string]logical.Factory{"kv2": kv.VersionedKVFactory}}
	nTasks := 2 + tp.Pick(3)
	nPaths := 1 + tp.Pick(2)
	faulty := tp.Pick(4) == 3
	maxVersions := []int{0, 2, 3}[tp.Pick(3)]
	casRequired := tp.Pick(4) == 3
	// where the sequential pre-race settings live: on the key's metadata or in the engine configuration
	inEngineCfg := tp.Pick(3) == 2
	rc.Cfg("settings_in_engine_config", inEngineCfg)
	rc.Cfg("cache_off", opts.DisableCache)
	rc.Cfg("plain_disk", opts.Plain)
	rc.Cfg("tasks", nTasks)
	rc.Cfg("paths", nPaths)
	rc.Cfg("faulty", faulty)
	rc.Cfg("max_versions", maxVersions)
	rc.Cfg("cas_required", casRequired)
	disk := NewDisk(s)
	// second scheduling point per storage operation (effect vs. continuation) in a third of the runs
	disk.PostGate = tp.Pick(3) == 2
	rc.Cfg("post_gate", disk.PostGate)
	h, err := BootCore(disk, opts)
	if err != nil {
		panic(err)
	}
	defer h.Shutdown()
	must(h.Mount("v2", "kv2", nil))
	// wait for the kv-v2 upgrade goroutine
	for i := 0; i < 100; i++ {
		if resp, err := h.RootRead("v2/config"); err == nil && resp != nil {
			break
		}
		time.Sleep(100 * time.Millisecond)
	}
	paths := []string{"p0", "p1"}[:nPaths]
	// the model's initial state mirrors the sequential setup
	init0 := kvState{Vers: map[int]*kvVer{}}
	if maxVersions > 0 || casRequired {
		if inEngineCfg {
			_, err := h.RootWrite("v2/config", map[string]any{"max_versions": maxVersions, "cas_required": casRequired})
			must(err)
			init0.CfgMax, init0.CfgCas = maxVersions, casRequired
		} else {
			for _, p := range paths {
				_, err := h.RootWrite("v2/metadata/"+p, map[string]any{"max_versions": maxVersions, "cas_required": casRequired})
				must(err)
			}
			init0.Max, init0.CasReq, init0.Exists = maxVersions, casRequired, true
		}
	}
	evt := 0
	var ops []porcupine.Operation
	var hist []string
	nval := 0
	doOp := func(client int, tag string, in kvIn) {
		s.mu.Lock()
		evt++
		call := evt
		s.mu.Unlock()
		var r Req
		switch in.Op {
		case "write":
			d := map[string]any{"data": map[string]any{"v": in.Data}}
			if in.Cas >= 0 {
				d["options"] = map[string]any{"cas": in.Cas}
			}
			r = Req{Op: logical.UpdateOperation, Path: "v2/data/" + in.Path, Token: h.Root, Data: d}
		case "patch":
			d := map[string]any{"data": map[string]any{in.PKey: in.Data}}
			if in.Cas >= 0 {
				d["options"] = map[string]any{"cas": in.Cas}
			}
			r = Req{Op: logical.PatchOperation, Path: "v2/data/" + in.Path, Token: h.Root, Data: d}
		case "meta":
			d := map[string]any{}
			if in.MaxV >= 0 {
				d["max_versions"] = in.MaxV
			}
			if in.CasR >= 0 {
				d["cas_required"] = in.CasR == 1
			}
			if in.Custom != "" {
				d["custom_metadata"] = map[string]any{"m": in.Custom}
			}
			r = Req{Op: logical.UpdateOperation, Path: "v2/metadata/" + in.Path, Token: h.Root, Data: d}
		case "read":
			r = Req{Op: logical.ReadOperation, Path: "v2/data/" + in.Path, Token: h.Root}
			if in.Version > 0 {
				r.Data = map[string]any{"version": in.Version}
			}
		case "delete":
			if in.Version == 0 {
				r = Req{Op: logical.DeleteOperation, Path: "v2/data/" + in.Path, Token: h.Root}
			} else {
				r = Req{Op: logical.UpdateOperation, Path: "v2/delete/" + in.Path, Token: h.Root, Data: map[string]any{"versions": in.named(0)}}
			}
		case "undelete":
			r = Req{Op: logical.UpdateOperation, Path: "v2/undelete/" + in.Path, Token: h.Root, Data: map[string]any{"versions": in.named(0)}}
		case "destroy":
			r = Req{Op: logical.UpdateOperation, Path: "v2/destroy/" + in.Path, Token: h.Root, Data: map[string]any{"versions": in.named(0)}}
		case "purge":
			r = Req{Op: logical.DeleteOperation, Path: "v2/metadata/" + in.Path, Token: h.Root}
		}
		s.mu.Lock()
		faultsBefore := s.Faults["err-na"]
		s.mu.Unlock()
		resp, err := h.Do(tag, r)
		out := kvOut{}
		s.mu.Lock()
		out.Faulted = s.Faults["err-na"] > faultsBefore
		s.mu.Unlock()
		msg := ""
		if err != nil {
			msg = err.Error()
		}
		if resp != nil && resp.IsError() {
			msg += " " + resp.Error().Error()
		}
		switch {
		case strings.Contains(msg, "check-and-set parameter did not match") || strings.Contains(msg, "check-and-set parameter required"):
			out.Err = "cas"
		case msg != "":
			out.Err = "other"
		default:
			data := map[string]any{}
			status := 0
			if resp != nil {
				data = resp.Data
				status = toInt(resp.Data[logical.HTTPStatusCode])
				if raw, ok := resp.Data[logical.HTTPRawBody]; ok {
					// 404 with metadata: {"data": {...}} wrapped as raw body
					var body struct {
						Data map[string]any `json:"data"`
					}
					switch b := raw.(type) {
					case []byte:
						json.Unmarshal(b, &body)
					case string:
						json.Unmarshal([]byte(b), &body)
					}
					data = body.Data
				}
			}
			switch in.Op {
			case "write":
				out.Version = toInt(data["version"])
			case "patch":
				if status == 404 {
					out.Err = "notfound"
				} else {
					out.Version = toInt(data["version"])
				}
			case "read":
				if resp != nil && data != nil {
					out.Found = true
					if md, ok := data["metadata"].(map[string]any); ok {
						out.Version = toInt(md["version"])
						// a deletion time in the future (delete_version_after) is not a deletion yet
						if dt, _ := md["deletion_time"].(string); dt != "" && status == 404 {
							out.Deleted = true
						}
						out.Destroyed, _ = md["destroyed"].(bool)
						switch cm := md["custom_metadata"].(type) {
						case map[string]string:
							out.Custom = cm["m"]
						case map[string]any:
							out.Custom, _ = cm["m"].(string)
						}
					}
					if dd, ok := data["data"].(map[string]any); ok && dd != nil {
						m := map[string]string{}
						for k, v := range dd {
							m[k] = fmt.Sprint(v)
						}
						out.Data = kvCanon(m)
					}
				}
			}
		}
		s.mu.Lock()
		evt++
		ret := evt
		ops = append(ops, porcupine.Operation{ClientId: client, Input: in, Call: int64(call), Output: out, Return: int64(ret)})
		hist = append(hist, fmt.Sprintf("[%d,%d] c%d %s %s cas=%d v=%d%s %s -> %+v", call, ret, client, in.Op, in.Path, in.Cas, in.Version, map[bool]string{true: "," + in.More, false: ""}[in.More != ""], in.Data, out))
		s.mu.Unlock()
	}
	// scripts
	scripts := make([][]kvIn, nTasks)
	total := 0
	for c := range scripts {
		n := 2 + tp.Pick(4)
		if total+n > 18 {
			n = 18 - total
		}
		total += n
		for j := 0; j < n; j++ {
			p := paths[tp.Pick(len(paths))]
			in := kvIn{Path: p, Cas: -1, MaxV: -1, CasR: -1}
			switch tp.Pick(16) {
			case 12, 13:
				in.Op = "patch"
				nval++
				in.Data = fmt.Sprintf("q%d", nval)
				in.PKey = []string{"v", "a", "b"}[tp.Pick(3)]
				if tp.Pick(3) == 2 {
					in.Cas = tp.Pick(4)
				}
			case 14, 15:
				in.Op = "meta"
				switch tp.Pick(4) {
				case 0:
					in.MaxV = []int{0, 2, 3}[tp.Pick(3)]
				case 1:
					in.CasR = tp.Pick(2)
				case 2:
					nval++
					in.Custom = fmt.Sprintf("c%d", nval)
				default:
					in.MaxV = []int{0, 2, 3}[tp.Pick(3)]
					nval++
					in.Custom = fmt.Sprintf("c%d", nval)
				}
			case 0, 1, 2:
				in.Op = "write"
				nval++
				in.Data = fmt.Sprintf("d%d", nval)
			case 3, 4:
				in.Op = "write"
				nval++
				in.Data = fmt.Sprintf("d%d", nval)
				in.Cas = tp.Pick(4)
			case 5, 6:
				in.Op = "read"
			case 7:
				in.Op = "read"
				in.Version = 1 + tp.Pick(4)
			case 8:
				in.Op = "delete"
				in.Version = tp.Pick(4)
			case 9:
				in.Op = "undelete"
				in.Version = 1 + tp.Pick(3)
			case 10:
				in.Op = "destroy"
				in.Version = 1 + tp.Pick(3)
			case 11:
				if tp.Pick(3) == 0 {
					in.Op = "purge"
				} else {
					in.Op = "read"
				}
			}
			// half of the requests that name versions name several: live ones,
			// deleted / destroyed / pruned ones and ones never written, in any order
			if (in.Op == "delete" || in.Op == "undelete" || in.Op == "destroy") && in.Version > 0 && tp.Pick(2) == 0 {
				var more []string
				for k := 0; k < 1+tp.Pick(2); k++ {
					more = append(more, strconv.Itoa(1+tp.Pick(5)))
				}
				in.More = strings.Join(more, ",")
			}
			scripts[c] = append(scripts[c], in)
		}
	}
	if faulty {
		s.SetFaults(25, 2, FaultErrNA)
	}
	s.TickPerStep = time.Millisecond
	s.SwarmFreeze()
	rc.Cfg("sched", fmt.Sprintf("stall=%d yield_on_release=%v", s.FreezePermille, s.YieldOnRelease))
	s.SetControlled()
	for c := range scripts {
		c := c
		tag := fmt.Sprintf("c%d", c)
		s.Go(tag, func() {
			for _, in := range scripts[c] {
				doOp(c, tag, in)
			}
		})
	}
	s.Run()
	s.SetFaults(0, 0)
	s.PassThrough()
	if s.Trunc {
		return
	}
	// a final sequential read of every version pins the end state
	for _, p := range paths {
		doOp(99, "final", kvIn{Op: "read", Path: p, Cas: -1, MaxV: -1, CasR: -1})
		for v := 1; v <= 4; v++ {
			doOp(99, "final", kvIn{Op: "read", Path: p, Cas: -1, MaxV: -1, CasR: -1, Version: v})
		}
	}
	// direct oracle besides linearizability: successful writes between two
	// metadata deletions never share a version number
	seenVer := map[string]string{}
	overlapW := 0
	for i, o := range ops {
		in, out := o.Input.(kvIn), o.Output.(kvOut)
		if in.Op == "purge" && out.Err == "" {
			for k := range seenVer {
				if strings.HasPrefix(k, in.Path+"#") {
					delete(seenVer, k)
				}
			}
		}
		if (in.Op != "write" && in.Op != "patch") || out.Err != "" {
			continue
		}
		for j, p := range ops {
			pin := p.Input.(kvIn)
			if j != i && (pin.Op == "write" || pin.Op == "patch") && pin.Path == in.Path && p.Call < o.Return && o.Call < p.Return {
				overlapW++
				break
			}
		}
		k := fmt.Sprintf("%s#%d", in.Path, out.Version)
		if prev, dup := seenVer[k]; dup && !hasPurge(ops, in.Path) {
			s.Violate("C14", "two-writes-same-version", map[string]any{"plain_disk": opts.Plain}, "writes %s and %s on %s both returned version %d; history %v", prev, in.Data, in.Path, out.Version, hist)
			return
		}
		seenVer[k] = in.Data
	}
	s.ProbeN("overlapping_writes", overlapW)
	nd := kvNDModel
	initKey := init0.key()
	nd.Init = func() []any { return []any{initKey} }
	res := checkBounded(nd, ops, 400000)
	switch res {
	case porcupine.Illegal:
		s.Violate("C14", "history-not-linearizable", map[string]any{"faulty": s.Faults["err-na"] > 0, "plain_disk": opts.Plain},
			"the recorded kv-v2 history has no linearization against the versioned-register model: %v", hist)
	case porcupine.Unknown:
		s.Probe("porcupine_unknown")
	default:
		s.Probe("porcupine_ok")
	}
	rc.Res.Sample = map[string]any{"history": tail(hist, 24)}
	rc.Res.StateSig = fmt.Sprintf("%d ops", len(ops))
	if s.Viol == nil && tp.Pick(3) == 0 {
		c14DeleteVersionAfter(rc, h, doOp, &ops, tp.Pick(2) == 1)
	}
}

// c14DeleteVersionAfter: sequential history on a fresh path with
// delete_version_after (on the key, or in the engine configuration) and the
// simulated clock: a version reads back its data until creation + dva, is
// reported deleted afterwards, and the expiry of one version leaves the
// others alone; patch refuses an expired latest version; undelete restores
// exactly the version it names.
func c14DeleteVersionAfter(rc *RunCtx, h *CoreH, doOp func(int, string, kvIn), ops *[]porcupine.Operation, engineLevel bool) {
	s := rc.S
	const dva = 30 * time.Second
	path := "dva"
	if engineLevel {
		path = "dvae"
		// min(mount, key) applies: the key asks for longer, the mount's bound wins
		if _, err := h.RootWrite("v2/config", map[string]any{"delete_version_after": "30s"}); err != nil {
			panic(err)
		}
		if _, err := h.RootWrite("v2/metadata/"+path, map[string]any{"delete_version_after": "2h", "max_versions": 10}); err != nil {
			panic(err)
		}
	} else if _, err := h.RootWrite("v2/metadata/"+path, map[string]any{"delete_version_after": "30s", "max_versions": 10}); err != nil {
		panic(err)
	}
	s.Probe("dva_tail")
	last := func() (kvIn, kvOut) {
		o := (*ops)[len(*ops)-1]
		return o.Input.(kvIn), o.Output.(kvOut)
	}
	rd := func(v int) kvOut {
		doOp(98, "dva", kvIn{Op: "read", Path: path, Cas: -1, MaxV: -1, CasR: -1, Version: v})
		_, out := last()
		return out
	}
	expect := func(what string, v int, wantData string, wantDeleted bool) bool {
		out := rd(v)
		ok := out.Err == "" && out.Found && out.Deleted == wantDeleted && out.Data == wantData && !out.Destroyed
		if !ok {
			s.Violate("C14", "delete-version-after-mismatch", map[string]any{"engine_level": engineLevel, "step": what},
				"delete_version_after=%s (%s): %s: read version %d returned %+v, want data=%q deleted=%v", dva, map[bool]string{false: "key metadata", true: "engine config (key asks for 2h)"}[engineLevel], what, v, out, wantData, wantDeleted)
		}
		return ok
	}
	wr := func(op, data, pkey string) kvOut {
		doOp(98, "dva", kvIn{Op: op, Path: path, Cas: -1, MaxV: -1, CasR: -1, Data: data, PKey: pkey})
		_, out := last()
		return out
	}
	if o := wr("write", "t1", ""); o.Err != "" || o.Version != 1 {
		return // cas_required in the engine configuration etc.: not this tail's business
	}
	time.Sleep(10 * time.Second)
	if o := wr("write", "t2", ""); o.Err != "" || o.Version != 2 {
		return
	}
	if !expect("before expiry", 1, "v=t1", false) || !expect("before expiry", 2, "v=t2", false) {
		return
	}
	time.Sleep(21 * time.Second) // t1 + 31 s, t2 + 21 s
	if !expect("first version expired", 1, "", true) || !expect("second version not yet expired", 2, "v=t2", false) {
		return
	}
	if o := wr("patch", "t3", "a"); o.Err != "" || o.Version != 3 {
		s.Violate("C14", "delete-version-after-mismatch", map[string]any{"engine_level": engineLevel, "step": "patch live latest"}, "patch of the unexpired latest version failed: %+v", o)
		return
	}
	if !expect("patched", 3, "a=t3,v=t2", false) {
		return
	}
	time.Sleep(31 * time.Second)
	if !expect("all expired", 0, "", true) || !expect("all expired", 2, "", true) {
		return
	}
	if o := wr("patch", "t4", "a"); o.Err != "notfound" {
		s.Violate("C14", "delete-version-after-mismatch", map[string]any{"engine_level": engineLevel, "step": "patch expired latest"}, "patch of an expired latest version was not refused: %+v", o)
		return
	}
	doOp(98, "dva", kvIn{Op: "undelete", Path: path, Cas: -1, MaxV: -1, CasR: -1, Version: 2})
	if _, o := last(); o.Err != "" {
		return
	}
	expect("undeleted version is back", 2, "v=t2", false)
	expect("undelete leaves the other versions alone", 1, "", true)
	expect("undelete leaves the other versions alone", 3, "", true)
}

func toInt(v any) int {
	switch x := v.(type) {
	case int:
		return x
	case int64:
		return int(x)
	case uint64:
		return int(x)
	case float64:
		return int(x)
	case json.Number:
		n, _ := x.Int64()
		return int(n)
	}
	return 0
}

func hasPurge(ops []porcupine.Operation, path string) bool {
	for _, o := range ops {
		if in := o.Input.(kvIn); in.Op == "purge" && in.Path == path {
			return true
		}
	}
	return false
}
