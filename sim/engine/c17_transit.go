package verifsim

import (
	"encoding/base64"
	"encoding/json"
	"fmt"
	"strconv"
	"strings"
	"time"

	"github.com/openbao/openbao/sdk/v2/logical"
	"github.com/openbao/openbao/v2/internal/builtin/logical/transit"
)

// C17 — transit encryption round-trips, binds its inputs and honours version
// limits.
//
// The real transit backend (lock manager, policy cache, archive) runs in the
// simulated Core. Histories of create / encrypt (context, associated data,
// explicit version) / decrypt / rewrap / sign / verify / hmac / rotate /
// config (min_decryption_version, min_encryption_version) / trim / backup +
// restore, with the k-th storage operation of mutating requests failing
// (err-na), a restart (cache drop) of a fresh Core on EVERY write prefix of
// rotate / config / trim / restore, and wire corruption of ciphertext bytes,
// version prefix, context, associated data and signatures.
//
// Oracle: a model of issued artefacts. Decrypt returns exactly the plaintext
// iff min_decryption_version <= version in the current durable configuration
// and every input matches, otherwise an error - never other bytes; the
// encryption version is the requested / latest one and never below
// min_encryption_version; convergent encryption is deterministic; signatures
// and HMACs verify iff everything matches; a rotate/config/trim that returned
// an error changed nothing - in memory AND after a restart.

func init() {
	register(&Scenario{Prop: "C17", Name: "transit", Run: runC17})
}

type trKey struct {
	name       string
	typ        string
	derived    bool
	convergent bool
	latest     int
	minDec     int
	minEnc     int
	minAvail   int
	canEncrypt bool
	canSign    bool
	canHMAC    bool
	aad        bool
}

type trCT struct {
	key     *trKey
	ct      string
	pt      []byte
	version int
	ctx     []byte
	aad     []byte
}

type trSig struct {
	key     *trKey
	input   []byte
	sig     string
	version int
	ctx     []byte
	hmac    bool
	params  map[string]any // hash_algorithm, marshaling_algorithm, signature_algorithm as sent when signing
}

func b64(b []byte) string { return base64.StdEncoding.EncodeToString(b) }

func ctVersion(ct string) int {
	parts := strings.SplitN(ct, ":", 3)
	if len(parts) < 3 {
		return 0
	}
	v, _ := strconv.Atoi(strings.TrimPrefix(parts[1], "v"))
	return v
}

func runC17(rc *RunCtx) {
	s, tp := rc.S, rc.S.Tape
	opts := CoreOpts{DisableCache: tp.Pick(2) == 1, Plain: tp.Pick(2) == 1, Logical: map[string]logical.Factory{"transit": transit.Factory}}
	faulty := tp.Pick(3) == 2
	rc.Cfg("cache_off", opts.DisableCache)
	rc.Cfg("plain_disk", opts.Plain)
	rc.Cfg("faulty", faulty)
	disk := NewDisk(s)
	h, err := BootCore(disk, opts)
	if err != nil {
		panic(err)
	}
	defer func() { h.Shutdown() }()
	must(h.Mount("transit", "transit", nil))
	var keys []*trKey
	var cts []*trCT
	var sigs []*trSig
	var hist []string
	note := func(f string, a ...any) {
		l := fmt.Sprintf(f, a...)
		hist = append(hist, l)
		s.Note("%s", l)
	}
	viol := func(class string, sig map[string]any, f string, a ...any) {
		s.Violate("C17", class, sig, "%s; history: %v", fmt.Sprintf(f, a...), tail(hist, 25))
	}
	// request through the scheduler (so that single storage ops can fail)
	reqN := 0
	lastFaultDesc := ""
	do := func(r Req, failAt int) (*logical.Response, error, bool) {
		reqN++
		tag := fmt.Sprintf("q%d", reqN)
		var resp *logical.Response
		var err error
		s.SetControlled()
		t := s.Go(tag, func() { resp, err = h.Do(tag, r) })
		t.FailAt = failAt
		s.Run()
		s.PassThrough()
		injected := failAt > 0 && t.faultN >= failAt
		lastFaultDesc = t.FaultDesc
		if injected {
			s.Faults["err-na"]++
		}
		if err == nil && resp != nil && resp.IsError() {
			err = resp.Error()
		}
		return resp, err, injected
	}
	var failK func() int
	pcount := 0
	newPT := func() []byte {
		pcount++
		return []byte(fmt.Sprintf("plaintext-%d-%d", pcount, tp.Pick(1000)))
	}

	// decrypt verdict of one ciphertext under a model configuration
	expectDecrypt := func(c *trCT, minDec, minAvail int) bool { return c.version >= minDec && c.version >= minAvail }
	checkCT := func(hh *CoreH, c *trCT, phase string, altMinDec, altMinAvail int) bool {
		data := map[string]any{"ciphertext": c.ct}
		if c.ctx != nil {
			data["context"] = b64(c.ctx)
		}
		if c.aad != nil {
			data["associated_data"] = b64(c.aad)
		}
		resp, err := hh.Do("dec", Req{Op: logical.UpdateOperation, Path: "transit/decrypt/" + c.key.name, Token: hh.Root, Data: data})
		if resp != nil && resp.IsError() {
			if err == nil {
				err = resp.Error()
			} else {
				err = fmt.Errorf("%v (%v)", resp.Error(), err)
			}
		}
		want := expectDecrypt(c, c.key.minDec, c.key.minAvail)
		alt := want
		if altMinDec >= 0 {
			alt = expectDecrypt(c, altMinDec, altMinAvail)
		}
		sig := map[string]any{"phase": phase, "key_type": c.key.typ}
		if err != nil {
			if want && alt {
				viol("decrypt-refused", sig, "%s: ciphertext v%d of %s (min_decryption %d) was refused: %v", phase, c.version, c.key.name, c.key.minDec, err)
				return false
			}
			return true
		}
		got, _ := base64.StdEncoding.DecodeString(fmt.Sprint(resp.Data["plaintext"]))
		if string(got) != string(c.pt) {
			viol("decrypt-returned-other-bytes", sig, "%s: decrypt of a v%d ciphertext of %s returned %q, the plaintext was %q", phase, c.version, c.key.name, got, c.pt)
			return false
		}
		if !want && !alt {
			viol("decrypt-below-min-version", sig, "%s: ciphertext v%d of %s decrypted although min_decryption_version=%d min_available=%d", phase, c.version, c.key.name, c.key.minDec, c.key.minAvail)
			return false
		}
		return true
	}
	checkAll := func(hh *CoreH, phase string, k *trKey, altMinDec, altMinAvail int) bool {
		for _, c := range cts {
			a, b := -1, -1
			if c.key == k {
				a, b = altMinDec, altMinAvail
			}
			if !checkCT(hh, c, phase, a, b) {
				return false
			}
		}
		return true
	}
	// crash at every write prefix of a mutating op on key k whose config moved old -> new
	crashes := 0
	crashCheck := func(op string, from int, k *trKey, oldMinDec, oldMinAvail int) bool {
		to := disk.LogLen()
		for p := from; p <= to; p++ {
			crashes++
			nh, err := Reboot(disk.ForkAt(p, s), h)
			if err != nil {
				viol("unbootable-after-crash", map[string]any{"op": op}, "reboot at write %d of %d inside %s failed: %v", p-from, to-from, op, err)
				return false
			}
			ok := checkAll(nh, fmt.Sprintf("crash at write %d/%d of %s", p-from, to-from, op), k, oldMinDec, oldMinAvail)
			nh.Shutdown()
			if !ok {
				return false
			}
		}
		return true
	}

	// after a mutation that returned an error the key's configuration, as
	// the API reports it, must be what it was before
	var sigUnchanged, unchangedCT func(k *trKey, op string) bool
	unchanged := func(k *trKey, op string) bool {
		if !unchangedCT(k, op) {
			return false
		}
		return sigUnchanged == nil || sigUnchanged(k, op)
	}
	unchangedCT = func(k *trKey, op string) bool {
		resp, err := h.Do("readkey", Req{Op: logical.ReadOperation, Path: "transit/keys/" + k.name, Token: h.Root})
		if err != nil || resp == nil || resp.IsError() {
			return true
		}
		lv, md, me := toInt(resp.Data["latest_version"]), toInt(resp.Data["min_decryption_version"]), toInt(resp.Data["min_encryption_version"])
		if lv != k.latest || md != k.minDec || me != k.minEnc {
			viol("failed-mutation-changed-state", map[string]any{"op": op, "commit_failed": strings.HasPrefix(lastFaultDesc, "commit")},
				"%s of %s returned an error (storage fault at %q) but the key now reports latest=%d min_dec=%d min_enc=%d, before: latest=%d min_dec=%d min_enc=%d",
				op, k.name, lastFaultDesc, lv, md, me, k.latest, k.minDec, k.minEnc)
			return false
		}
		// ... and so must the usability of its versions: a ciphertext the
		// unchanged configuration admits still decrypts (a failed config
		// change that already archived key versions in the cached policy
		// restores min_decryption_version but not the versions themselves)
		for _, c := range cts {
			if c.key != k || !expectDecrypt(c, k.minDec, k.minAvail) {
				continue
			}
			data := map[string]any{"ciphertext": c.ct}
			if c.ctx != nil {
				data["context"] = b64(c.ctx)
			}
			if c.aad != nil {
				data["associated_data"] = b64(c.aad)
			}
			r2, e2 := h.Do("dec", Req{Op: logical.UpdateOperation, Path: "transit/decrypt/" + k.name, Token: h.Root, Data: data})
			if e2 == nil && r2 != nil && r2.IsError() {
				e2 = r2.Error()
			}
			if e2 != nil {
				viol("failed-mutation-changed-state", map[string]any{"op": op, "commit_failed": strings.HasPrefix(lastFaultDesc, "commit")},
					"%s of %s returned an error (storage fault at %q) and the key still reports latest=%d min_dec=%d min_enc=%d, but its v%d ciphertext is now refused: %v",
					op, k.name, lastFaultDesc, lv, md, me, c.version, e2)
				return false
			}
		}
		return true
	}
	// verify a signature / hmac with the parameters it was made with, optionally overridden
	verifySig := func(sg *trSig, input []byte, sig string, override map[string]any) (bool, error) {
		field := "signature"
		if sg.hmac {
			field = "hmac"
		}
		data := map[string]any{"input": b64(input), field: sig}
		for f, v := range sg.params {
			data[f] = v
		}
		if sg.ctx != nil {
			data["context"] = b64(sg.ctx)
		}
		for f, v := range override {
			if v == nil {
				delete(data, f)
			} else {
				data[f] = v
			}
		}
		resp, err := h.Do("verify", Req{Op: logical.UpdateOperation, Path: "transit/verify/" + sg.key.name, Token: h.Root, Data: data})
		if err == nil && resp != nil && resp.IsError() {
			err = resp.Error()
		}
		if err != nil {
			return false, err
		}
		v, _ := resp.Data["valid"].(bool)
		return v, nil
	}
	// a signature the current configuration admits verifies over its own input
	// (false: a violation was raised)
	checkSig := func(sg *trSig, phase string) bool {
		field := map[bool]string{true: "hmac", false: "signature"}[sg.hmac]
		ok, err := verifySig(sg, sg.input, sg.sig, nil)
		want := sg.version >= sg.key.minDec && sg.version >= sg.key.minAvail
		if want && (!ok || err != nil) {
			viol("valid-signature-rejected", map[string]any{"hmac": sg.hmac, "key_type": sg.key.typ, "derived": sg.key.derived}, "%s: %s v%d of %s (%v) over its own input does not verify: %v", phase, field, sg.version, sg.key.name, sg.params, err)
			return false
		}
		if !want && ok {
			viol("signature-below-min-version-verified", map[string]any{"hmac": sg.hmac}, "%s: %s v%d of %s verifies although min_decryption_version=%d", phase, field, sg.version, sg.key.name, sg.key.minDec)
			return false
		}
		return true
	}
	// ... and a signature / hmac the unchanged configuration admits still verifies
	sigUnchanged = func(k *trKey, op string) bool {
		for _, sg := range sigs {
			if sg.key != k || sg.version < k.minDec || sg.version < k.minAvail {
				continue
			}
			if ok, err := verifySig(sg, sg.input, sg.sig, nil); !ok || err != nil {
				viol("failed-mutation-changed-state", map[string]any{"op": op, "commit_failed": strings.HasPrefix(lastFaultDesc, "commit")},
					"%s of %s returned an error (storage fault at %q) and the key still reports its old configuration, but its v%d signature no longer verifies: %v", op, k.name, lastFaultDesc, sg.version, err)
				return false
			}
		}
		return true
	}
	nOps := 8 + tp.Pick(14)
	if rc.Thorough() {
		nOps = 8 + tp.Pick(42)
	}
	// a script forces the next operations: the pattern "a mutation fails on a
	// storage error, the client retries it, then the key's versions make a
	// round trip through the archive" needs its steps back to back on one key
	type forced struct {
		op    int
		k     *trKey
		nd    int // config: min_decryption_version (-1: latest)
		fault int // k-th storage operation fails (0: none)
	}
	var script []forced
	var fz *forced
	failK = func() int {
		if fz != nil {
			return fz.fault
		}
		if faulty && tp.Pick(3) == 0 {
			return 1 + tp.Pick(6)
		}
		return 0
	}
	for i := 0; (i < nOps || len(script) > 0) && s.Viol == nil; i++ {
		op := tp.Pick(16)
		fz = nil
		if len(script) > 0 {
			f := script[0]
			script = script[1:]
			fz = &f
			op = f.op
		}
		if len(keys) == 0 || (op == 0 && len(keys) < 3 && fz == nil) {
			// "for every key type": the symmetric and elliptic types are drawn
			// evenly, rsa-2048 rarely (a key pair costs ~0.1-0.3 s per version)
			typ := []string{"aes256-gcm96", "aes128-gcm96", "chacha20-poly1305", "ed25519", "ecdsa-p256", "hmac", "aes256-gcm96",
				"xchacha20-poly1305", "ecdsa-p384", "ecdsa-p521", "ed25519", "xchacha20-poly1305"}[tp.Pick(12)]
			if tp.Pick(24) == 0 {
				typ = "rsa-2048"
				s.Probe("rsa_key")
			}
			k := &trKey{name: fmt.Sprintf("k%d", len(keys)), typ: typ, latest: 1, minDec: 1, minEnc: 0}
			data := map[string]any{"type": typ, "allow_plaintext_backup": true, "exportable": true}
			switch typ {
			case "rsa-2048":
				k.canEncrypt, k.canSign, k.canHMAC = true, true, true
			case "aes256-gcm96", "aes128-gcm96", "chacha20-poly1305", "xchacha20-poly1305":
				k.canEncrypt, k.canHMAC, k.aad = true, true, true
				if tp.Pick(3) == 0 {
					k.derived = true
					data["derived"] = true
					if tp.Pick(2) == 0 {
						k.convergent = true
						data["convergent_encryption"] = true
					}
				}
			case "ed25519", "ecdsa-p256", "ecdsa-p384", "ecdsa-p521":
				k.canSign, k.canHMAC = true, true
				if typ == "ed25519" && tp.Pick(3) == 0 { // signing with a derived key: the context is a signature parameter
					k.derived = true
					data["derived"] = true
				}
			case "hmac":
				k.canHMAC = true
			}
			_, err, _ := do(Req{Op: logical.UpdateOperation, Path: "transit/keys/" + k.name, Token: h.Root, Data: data}, 0)
			if err != nil {
				note("create %s %s -> %v", k.name, typ, err)
				continue
			}
			keys = append(keys, k)
			note("create %s %s derived=%v convergent=%v", k.name, typ, k.derived, k.convergent)
			continue
		}
		k := keys[tp.Pick(len(keys))]
		if fz != nil && fz.k != nil {
			k = fz.k
		}
		switch {
		case op == 99: // end of a script: the live node (with its cache) still serves every ciphertext
			if !checkAll(h, "after retried mutation and archive round trip", nil, -1, -1) {
				return
			}
			s.Probe("script_completed")
		case op == 15 && faulty && fz == nil:
			fk := 1 + tp.Pick(6)
			mut := []int{7, 9}[tp.Pick(2)]
			script = []forced{{op: mut, k: k, nd: -1, fault: fk}, {op: mut, k: k, nd: -1}, {op: 1, k: k}, {op: 7, k: k}, {op: 1, k: k},
				{op: 9, k: k, nd: -1}, {op: 9, k: k, nd: 1}, {op: 99}}
			note("script on %s: %s failing at storage op %d, retry, rotate, archive round trip", k.name, map[int]string{7: "rotate", 9: "config"}[mut], fk)
		case op == 4 && k.canEncrypt && k.aad && !k.convergent && fz == nil: // batch encrypt / decrypt, items with and without associated data
			var items []any // (the framework wants []any of maps, as JSON decoding yields)
			var bc []*trCT
			for j := 0; j < 2+tp.Pick(3); j++ {
				pt := newPT()
				it := map[string]any{"plaintext": b64(pt)}
				c := &trCT{key: k, pt: pt}
				if k.derived {
					c.ctx = []byte(fmt.Sprintf("ctx-%d", tp.Pick(3)))
					it["context"] = b64(c.ctx)
				}
				if tp.Pick(2) == 0 {
					c.aad = []byte(fmt.Sprintf("aad-%d-%d", j, tp.Pick(3)))
					it["associated_data"] = b64(c.aad)
				}
				items = append(items, it)
				bc = append(bc, c)
			}
			resp, err, _ := do(Req{Op: logical.UpdateOperation, Path: "transit/encrypt/" + k.name, Token: h.Root, Data: map[string]any{"batch_input": items}}, 0)
			if err != nil || resp == nil {
				note("batch encrypt %s -> %v", k.name, err)
				s.Probe("encrypt_refused")
				continue
			}
			var results []map[string]any
			switch br := resp.Data["batch_results"].(type) {
			case []map[string]any:
				results = br
			case []any:
				for _, x := range br {
					if m, ok := x.(map[string]any); ok {
						results = append(results, m)
					}
				}
			default:
				// typed slice of the backend: go through JSON
				if b, e := json.Marshal(br); e == nil {
					json.Unmarshal(b, &results)
				}
			}
			if len(results) != len(bc) {
				note("batch encrypt %s -> %d results for %d items", k.name, len(results), len(bc))
				continue
			}
			note("batch encrypt %s: %d items", k.name, len(bc))
			s.Probe("batch_encrypt")
			for j, c := range bc {
				c.ct = fmt.Sprint(results[j]["ciphertext"])
				c.version = ctVersion(c.ct)
				if c.version != k.latest {
					viol("encrypt-wrong-version", map[string]any{"key_type": k.typ}, "batch encrypt with %s used version %d, latest is %d", k.name, c.version, k.latest)
					return
				}
				cts = append(cts, c)
				// each item on its own: binds exactly its own associated data
				if !checkCT(h, c, "batch item decrypted singly", -1, -1) {
					return
				}
			}
			// batch decrypt: every item with its own inputs, plus one item whose associated data is withheld
			var ditems []any
			withheld := -1
			for j, c := range bc {
				it := map[string]any{"ciphertext": c.ct}
				if c.ctx != nil {
					it["context"] = b64(c.ctx)
				}
				if c.aad != nil {
					if withheld < 0 && j > 0 {
						withheld = j // sent WITHOUT its associated data: must fail
					} else {
						it["associated_data"] = b64(c.aad)
					}
				}
				ditems = append(ditems, it)
			}
			dresp, derr, _ := do(Req{Op: logical.UpdateOperation, Path: "transit/decrypt/" + k.name, Token: h.Root, Data: map[string]any{"batch_input": ditems}}, 0)
			if dresp == nil {
				note("batch decrypt %s -> %v", k.name, derr)
				continue
			}
			var dres []map[string]any
			if b, e := json.Marshal(dresp.Data["batch_results"]); e == nil {
				json.Unmarshal(b, &dres)
			}
			if len(dres) != len(bc) {
				continue
			}
			for j, c := range bc {
				got, _ := base64.StdEncoding.DecodeString(fmt.Sprint(dres[j]["plaintext"]))
				errStr, _ := dres[j]["error"].(string)
				if j == withheld {
					if errStr == "" && dres[j]["plaintext"] != nil {
						viol("decrypt-ignored-associated-data", map[string]any{"key_type": k.typ, "batch": true}, "batch decrypt of %s: item %d was encrypted with associated data %q, decrypted without any: got %q", k.name, j, c.aad, got)
						return
					}
					continue
				}
				if errStr != "" || string(got) != string(c.pt) {
					viol("decrypt-refused", map[string]any{"phase": "batch decrypt", "key_type": k.typ}, "batch decrypt of %s: item %d (associated data %q) gave error %q / plaintext %q, want %q", k.name, j, c.aad, errStr, got, c.pt)
					return
				}
			}
		case op <= 4 && k.canEncrypt: // encrypt
			pt := newPT()
			data := map[string]any{"plaintext": b64(pt)}
			c := &trCT{key: k, pt: pt}
			if k.derived {
				c.ctx = []byte(fmt.Sprintf("ctx-%d", tp.Pick(3)))
				data["context"] = b64(c.ctx)
			}
			if k.aad && !k.convergent && tp.Pick(3) == 0 {
				c.aad = []byte(fmt.Sprintf("aad-%d", tp.Pick(3)))
				data["associated_data"] = b64(c.aad)
			}
			reqVer := 0
			if tp.Pick(4) == 0 {
				reqVer = 1 + tp.Pick(k.latest)
				data["key_version"] = reqVer
			}
			resp, err, _ := do(Req{Op: logical.UpdateOperation, Path: "transit/encrypt/" + k.name, Token: h.Root, Data: data}, 0)
			if err != nil {
				note("encrypt %s v=%d -> %v", k.name, reqVer, err)
				s.Probe("encrypt_refused") // API validation rules are not this property's business
				continue
			}
			c.ct = fmt.Sprint(resp.Data["ciphertext"])
			c.version = ctVersion(c.ct)
			note("encrypt %s reqv=%d -> v%d", k.name, reqVer, c.version)
			wantV := k.latest
			if reqVer > 0 {
				wantV = reqVer
			}
			if c.version != wantV {
				viol("encrypt-wrong-version", map[string]any{"key_type": k.typ}, "encrypt with %s used version %d, expected %d (latest %d, requested %d)", k.name, c.version, wantV, k.latest, reqVer)
				return
			}
			if k.minEnc > 0 && c.version < k.minEnc {
				viol("encrypt-below-min-encryption-version", map[string]any{"key_type": k.typ}, "encrypt with %s used version %d below min_encryption_version %d", k.name, c.version, k.minEnc)
				return
			}
			if k.convergent {
				for _, o := range cts {
					if o.key == k && o.version == c.version && string(o.ctx) == string(c.ctx) && string(o.pt) == string(c.pt) && o.ct != c.ct {
						viol("convergent-not-deterministic", nil, "convergent key %s produced two ciphertexts for the same (version, context, plaintext)", k.name)
						return
					}
				}
				// and a second encryption of the same triple right away
				resp2, err2, _ := do(Req{Op: logical.UpdateOperation, Path: "transit/encrypt/" + k.name, Token: h.Root, Data: data}, 0)
				if err2 == nil && fmt.Sprint(resp2.Data["ciphertext"]) != c.ct {
					viol("convergent-not-deterministic", nil, "convergent key %s: re-encrypting the same input gave a different ciphertext", k.name)
					return
				}
			}
			cts = append(cts, c)
			if !checkCT(h, c, "fresh", -1, -1) {
				return
			}
		case op == 5 && len(cts) > 0: // decrypt some + wire corruption
			c := cts[tp.Pick(len(cts))]
			if !checkCT(h, c, "decrypt", -1, -1) {
				return
			}
			if !expectDecrypt(c, c.key.minDec, c.key.minAvail) {
				continue
			}
			parts := strings.SplitN(c.ct, ":", 3)
			raw, _ := base64.StdEncoding.DecodeString(parts[2])
			kind := tp.Pick(5)
			data := map[string]any{"ciphertext": c.ct}
			if c.ctx != nil {
				data["context"] = b64(c.ctx)
			}
			if c.aad != nil {
				data["associated_data"] = b64(c.aad)
			}
			desc := ""
			switch kind {
			case 0: // flip a bit of the ciphertext bytes
				m := append([]byte{}, raw...)
				m[tp.Pick(len(m))] ^= 1 << tp.Pick(8)
				data["ciphertext"] = parts[0] + ":" + parts[1] + ":" + b64(m)
				desc = "ciphertext bit flip"
			case 1: // truncate
				data["ciphertext"] = parts[0] + ":" + parts[1] + ":" + b64(raw[:len(raw)-1-tp.Pick(len(raw)-1)])
				desc = "ciphertext truncated"
			case 2: // another version prefix
				ov := 1 + tp.Pick(c.key.latest)
				if ov == c.version {
					continue
				}
				data["ciphertext"] = fmt.Sprintf("%s:v%d:%s", parts[0], ov, parts[2])
				desc = fmt.Sprintf("version prefix v%d->v%d", c.version, ov)
			case 3: // other context
				if c.ctx == nil {
					continue
				}
				data["context"] = b64(append([]byte("x"), c.ctx...))
				desc = "other context"
			case 4: // other / missing associated data
				if c.aad == nil {
					if !c.key.aad || c.key.convergent {
						continue
					}
					data["associated_data"] = b64([]byte("unexpected"))
					desc = "unexpected associated data"
				} else if tp.Pick(2) == 0 {
					data["associated_data"] = b64(append([]byte("x"), c.aad...))
					desc = "other associated data"
				} else {
					delete(data, "associated_data")
					desc = "missing associated data"
				}
			}
			resp, err := h.Do("corrupt", Req{Op: logical.UpdateOperation, Path: "transit/decrypt/" + c.key.name, Token: h.Root, Data: data})
			if err == nil && resp != nil && resp.IsError() {
				err = resp.Error()
			}
			s.Faults["wire-corrupt"]++
			if err == nil {
				got, _ := base64.StdEncoding.DecodeString(fmt.Sprint(resp.Data["plaintext"]))
				viol("tampered-input-decrypted", map[string]any{"corruption": strings.SplitN(desc, " v", 2)[0], "key_type": c.key.typ}, "decrypt with %s succeeded (returned %q, original %q)", desc, got, c.pt)
				return
			}
		case op == 6 && k.canEncrypt && len(cts) > 0: // rewrap
			var c *trCT
			for _, x := range cts {
				if x.key == k {
					c = x
				}
			}
			if c == nil || !expectDecrypt(c, k.minDec, k.minAvail) {
				continue
			}
			data := map[string]any{"ciphertext": c.ct}
			if c.ctx != nil {
				data["context"] = b64(c.ctx)
			}
			resp, err, _ := do(Req{Op: logical.UpdateOperation, Path: "transit/rewrap/" + k.name, Token: h.Root, Data: data}, 0)
			if err != nil {
				s.Probe("rewrap_refused")
				continue
			}
			n := &trCT{key: k, pt: c.pt, ctx: c.ctx, aad: c.aad, ct: fmt.Sprint(resp.Data["ciphertext"])}
			n.version = ctVersion(n.ct)
			note("rewrap %s v%d -> v%d", k.name, c.version, n.version)
			if n.version != k.latest {
				viol("encrypt-wrong-version", map[string]any{"key_type": k.typ}, "rewrap with %s produced version %d, latest is %d", k.name, n.version, k.latest)
				return
			}
			cts = append(cts, n)
			if !checkCT(h, n, "rewrapped", -1, -1) {
				return
			}
		case op == 7 || op == 8: // rotate
			from := disk.LogLen()
			_, err, inj := do(Req{Op: logical.UpdateOperation, Path: "transit/keys/" + k.name + "/rotate", Token: h.Root}, failK())
			note("rotate %s -> %v (injected=%v)", k.name, err == nil, inj)
			if err != nil {
				if !inj {
					s.Probe("rotate_refused")
				}
				if !unchanged(k, "rotate") {
					return
				}
			} else {
				k.latest++
			}
			if !crashCheck("rotate", from, k, k.minDec, k.minAvail) {
				return
			}
		case op == 9: // config
			nd := 1 + tp.Pick(k.latest)
			ne := tp.Pick(k.latest + 1)
			if fz != nil && fz.nd != 0 {
				nd, ne = fz.nd, 0
				if nd < 0 || nd > k.latest {
					nd = k.latest
				}
			}
			if ne > 0 && ne < nd {
				ne = nd
			}
			from := disk.LogLen()
			cfgData := map[string]any{"min_decryption_version": nd, "min_encryption_version": ne, "deletion_allowed": true}
			// a quarter of the config requests carry, next to valid version
			// bounds, a field the handler validates later and refuses: the
			// request as a whole must change nothing
			mustRefuse := ""
			if fz == nil && tp.Pick(4) == 0 {
				switch tp.Pick(3) {
				case 0:
					cfgData["min_encryption_version"] = k.latest + 2
					mustRefuse = "min_encryption_version above latest"
				case 1:
					cfgData["auto_rotate_period"] = "10m"
					mustRefuse = "auto_rotate_period below one hour"
				default:
					cfgData["auto_rotate_period"] = "not-a-duration"
					mustRefuse = "unparsable auto_rotate_period"
				}
			}
			_, err, inj := do(Req{Op: logical.UpdateOperation, Path: "transit/keys/" + k.name + "/config", Token: h.Root, Data: cfgData}, failK())
			note("config %s min_dec=%d min_enc=%d %s -> %v (injected=%v)", k.name, nd, ne, mustRefuse, err == nil, inj)
			oldDec := k.minDec
			if mustRefuse != "" && err == nil {
				s.Probe("invalid_config_accepted") // validation rules themselves are not this property's business
				if cfgData["min_encryption_version"] != ne {
					ne = toInt(cfgData["min_encryption_version"])
				}
			}
			if mustRefuse != "" && err != nil {
				s.Probe("config_with_invalid_field_refused")
			}
			if err != nil {
				if !inj {
					s.Probe("config_refused")
				}
				if !unchanged(k, "config") {
					return
				}
			} else {
				k.minDec, k.minEnc = nd, ne
			}
			if !crashCheck("config", from, k, oldDec, k.minAvail) {
				return
			}
		case op == 10: // trim
			na := 1 + tp.Pick(k.latest)
			from := disk.LogLen()
			_, err, inj := do(Req{Op: logical.UpdateOperation, Path: "transit/keys/" + k.name + "/trim", Token: h.Root, Data: map[string]any{"min_available_version": na}}, failK())
			note("trim %s min_avail=%d -> %v (injected=%v)", k.name, na, err == nil, inj)
			oldAvail := k.minAvail
			crashChecked := false
			trimFault := lastFaultDesc
			if err == nil {
				if na > k.minDec || (k.minEnc > 0 && na > k.minEnc) || (k.minEnc == 0 && na > k.latest) {
					viol("trim-above-min-versions", nil, "trim of %s to %d accepted with min_dec %d min_enc %d latest %d", k.name, na, k.minDec, k.minEnc, k.latest)
					return
				}
				if na > k.minAvail {
					k.minAvail = na
				}
			} else {
				if !unchanged(k, "trim") {
					return
				}
				if !crashCheck("trim", from, k, k.minDec, oldAvail) {
					return
				}
				crashChecked = true
				// ... and the failed trim must not have damaged what is only
				// visible later: lower min_decryption_version to the oldest
				// version that should still be available, every ciphertext from
				// there on must decrypt, then put the setting back. (A trim is
				// two writes - archive, policy; on non-transactional storage an
				// error between them leaves a shortened archive under a policy
				// that still indexes it from the old minimum.)
				if lo := max(1, k.minAvail); inj && k.minDec > lo {
					oldDec := k.minDec
					_, e, _ := do(Req{Op: logical.UpdateOperation, Path: "transit/keys/" + k.name + "/config", Token: h.Root, Data: map[string]any{"min_decryption_version": lo}}, 0)
					if e != nil {
						viol("failed-mutation-changed-state", map[string]any{"op": "trim", "commit_failed": strings.HasPrefix(trimFault, "commit"), "torn_archive": true, "plain_disk": opts.Plain},
							"trim of %s returned an error (storage fault at %q) and the key reports unchanged settings, but min_decryption_version can no longer be lowered back to %d: %v", k.name, trimFault, lo, e)
						return
					}
					if e == nil {
						k.minDec = lo
						for _, c := range cts {
							if c.key != k || !expectDecrypt(c, k.minDec, k.minAvail) {
								continue
							}
							data := map[string]any{"ciphertext": c.ct}
							if c.ctx != nil {
								data["context"] = b64(c.ctx)
							}
							if c.aad != nil {
								data["associated_data"] = b64(c.aad)
							}
							r2, e2 := h.Do("dec", Req{Op: logical.UpdateOperation, Path: "transit/decrypt/" + k.name, Token: h.Root, Data: data})
							if e2 == nil && r2 != nil && r2.IsError() {
								e2 = r2.Error()
							}
							got := ""
							if e2 == nil && r2 != nil {
								b, _ := base64.StdEncoding.DecodeString(fmt.Sprint(r2.Data["plaintext"]))
								got = string(b)
							}
							if e2 != nil || got != string(c.pt) {
								viol("failed-mutation-changed-state", map[string]any{"op": "trim", "commit_failed": strings.HasPrefix(trimFault, "commit"), "torn_archive": true, "plain_disk": opts.Plain},
									"trim of %s returned an error (storage fault at %q) and the key reports unchanged settings, but after lowering min_decryption_version back to %d its v%d ciphertext no longer decrypts (%v, got %q): the failed trim altered the archive", k.name, trimFault, lo, c.version, e2, got)
								return
							}
						}
						if _, e, _ := do(Req{Op: logical.UpdateOperation, Path: "transit/keys/" + k.name + "/config", Token: h.Root, Data: map[string]any{"min_decryption_version": oldDec}}, 0); e == nil {
							k.minDec = oldDec
						}
						s.Probe("failed_trim_deep_check")
					}
				}
			}
			if !crashChecked && !crashCheck("trim", from, k, k.minDec, oldAvail) {
				return
			}
		case op == 11 && (k.canSign || k.canHMAC): // sign / hmac, with drawn parameters
			input := newPT()
			useHMAC := !k.canSign || tp.Pick(2) == 0
			path := "transit/sign/" + k.name
			field := "signature"
			sg := &trSig{key: k, input: input, hmac: useHMAC, params: map[string]any{}}
			data := map[string]any{"input": b64(input)}
			if alg := []string{"", "", "sha2-256", "sha2-384", "sha2-512", "sha3-256"}[tp.Pick(6)]; alg != "" {
				sg.params["hash_algorithm"] = alg
				if useHMAC {
					data["algorithm"] = alg
				} else {
					data["hash_algorithm"] = alg
				}
			}
			if useHMAC {
				path, field = "transit/hmac/"+k.name, "hmac"
			} else {
				if strings.HasPrefix(k.typ, "ecdsa") && tp.Pick(3) == 0 {
					sg.params["marshaling_algorithm"] = "jws"
				}
				if k.typ == "rsa-2048" && tp.Pick(2) == 0 {
					sg.params["signature_algorithm"] = "pkcs1v15"
				}
				if k.derived {
					sg.ctx = []byte(fmt.Sprintf("ctx-%d", tp.Pick(3)))
					data["context"] = b64(sg.ctx)
				}
				for _, f := range []string{"marshaling_algorithm", "signature_algorithm"} {
					if v, ok := sg.params[f]; ok {
						data[f] = v
					}
				}
			}
			reqVer := 0
			if lo := max(1, k.minEnc, k.minAvail); tp.Pick(3) == 0 && lo <= k.latest {
				reqVer = lo + tp.Pick(k.latest-lo+1)
				data["key_version"] = reqVer
			}
			resp, err, _ := do(Req{Op: logical.UpdateOperation, Path: path, Token: h.Root, Data: data}, 0)
			if err != nil {
				note("%s %s %v reqv=%d -> %v", field, k.name, sg.params, reqVer, err)
				s.Probe("sign_refused")
				continue
			}
			sg.sig = fmt.Sprint(resp.Data[field])
			sg.version = ctVersion(sg.sig)
			sigs = append(sigs, sg)
			note("%s %s %v reqv=%d -> v%d", field, k.name, sg.params, reqVer, sg.version)
			if want := map[bool]int{true: reqVer, false: k.latest}[reqVer > 0]; sg.version != want {
				viol("sign-wrong-version", map[string]any{"hmac": useHMAC, "key_type": k.typ}, "%s with %s used version %d, expected %d (latest %d, requested %d)", field, k.name, sg.version, want, k.latest, reqVer)
				return
			}
			if k.minEnc > 0 && sg.version < k.minEnc {
				viol("sign-below-min-encryption-version", map[string]any{"hmac": useHMAC, "key_type": k.typ}, "%s with %s used version %d below min_encryption_version %d", field, k.name, sg.version, k.minEnc)
				return
			}
			if !checkSig(sg, "fresh") {
				return
			}
			// the same request again, for another admissible key version, back to
			// back (nothing else touches the key in between): both results are
			// bound to their own version
			if lo := max(1, k.minEnc, k.minAvail); lo < k.latest && tp.Pick(2) == 0 {
				ov := lo + tp.Pick(k.latest-lo+1)
				if ov == sg.version {
					ov = lo + (ov-lo+1)%(k.latest-lo+1)
				}
				data["key_version"] = ov
				if resp, err, _ := do(Req{Op: logical.UpdateOperation, Path: path, Token: h.Root, Data: data}, 0); err == nil {
					sg2 := &trSig{key: k, input: input, hmac: useHMAC, params: sg.params, ctx: sg.ctx, sig: fmt.Sprint(resp.Data[field])}
					sg2.version = ctVersion(sg2.sig)
					sigs = append(sigs, sg2)
					note("%s %s %v reqv=%d (back to back) -> v%d", field, k.name, sg.params, ov, sg2.version)
					if sg2.version != ov {
						viol("sign-wrong-version", map[string]any{"hmac": useHMAC, "key_type": k.typ}, "%s with %s used version %d, requested %d", field, k.name, sg2.version, ov)
						return
					}
					if !checkSig(sg2, "fresh, second version back to back") {
						return
					}
					parts := strings.SplitN(sg2.sig, ":", 3)
					if ok, _ := verifySig(sg2, input, fmt.Sprintf("%s:v%d:%s", parts[0], sg.version, parts[2]), nil); ok {
						viol("tampered-signature-verified", map[string]any{"hmac": useHMAC, "corruption": "version prefix", "key_type": k.typ}, "%s v%d of %s verifies under the prefix v%d", field, sg2.version, k.name, sg.version)
						return
					}
					s.Probe("sign_two_versions_back_to_back")
				}
			}
		case op == 12 && len(sigs) > 0: // verify, genuine and tampered (message, bytes, version, parameters)
			sg := sigs[tp.Pick(len(sigs))]
			field := "signature"
			if sg.hmac {
				field = "hmac"
			}
			verify := func(input []byte, sig string, override map[string]any) (bool, error) {
				return verifySig(sg, input, sig, override)
			}
			vsig := func(corruption string) map[string]any {
				return map[string]any{"hmac": sg.hmac, "corruption": corruption, "key_type": sg.key.typ}
			}
			if !checkSig(sg, "verify") {
				return
			}
			var ok bool
			ok, _ = verify(append([]byte("x"), sg.input...), sg.sig, nil)
			s.Faults["wire-corrupt"]++
			if ok {
				viol("tampered-signature-verified", vsig("other message"), "%s of %s verifies for a different message", field, sg.key.name)
				return
			}
			parts := strings.SplitN(sg.sig, ":", 3)
			if raw, err := base64.StdEncoding.DecodeString(parts[2]); err == nil && len(raw) > 0 {
				raw[tp.Pick(len(raw))] ^= 1 << tp.Pick(8)
				ok, _ = verify(sg.input, parts[0]+":"+parts[1]+":"+b64(raw), nil)
				if ok {
					viol("tampered-signature-verified", vsig("bit flip"), "a bit-flipped %s of %s verifies", field, sg.key.name)
					return
				}
			}
			// another key version in the prefix: version v's signature must not verify as version w's
			if ov := 1 + tp.Pick(sg.key.latest); ov != sg.version {
				s.Faults["wire-corrupt"]++
				if ok, _ = verify(sg.input, fmt.Sprintf("%s:v%d:%s", parts[0], ov, parts[2]), nil); ok {
					viol("tampered-signature-verified", vsig("version prefix"), "%s v%d of %s verifies under the prefix v%d", field, sg.version, sg.key.name, ov)
					return
				}
			}
			// other parameters: another hash (ed25519 does not hash its input), another context, another marshaling / padding
			if sg.hmac || sg.key.typ != "ed25519" {
				eff := fmt.Sprint(sg.params["hash_algorithm"])
				if sg.params["hash_algorithm"] == nil {
					eff = "sha2-256"
				}
				other := []string{"sha2-256", "sha2-384", "sha2-512", "sha3-256"}[tp.Pick(4)]
				if other != eff {
					s.Faults["wire-corrupt"]++
					if ok, _ = verify(sg.input, sg.sig, map[string]any{"hash_algorithm": other}); ok {
						viol("tampered-signature-verified", vsig("other hash algorithm"), "%s of %s made with %s verifies with hash_algorithm=%s", field, sg.key.name, eff, other)
						return
					}
				}
			}
			if sg.ctx != nil {
				s.Faults["wire-corrupt"]++
				if ok, _ = verify(sg.input, sg.sig, map[string]any{"context": b64(append([]byte("x"), sg.ctx...))}); ok {
					viol("tampered-signature-verified", vsig("other context"), "signature of derived key %s verifies under another context", sg.key.name)
					return
				}
			}
			if !sg.hmac && sg.key.typ == "rsa-2048" {
				other := "pkcs1v15"
				if sg.params["signature_algorithm"] != nil {
					other = "pss"
				}
				s.Faults["wire-corrupt"]++
				if ok, _ = verify(sg.input, sg.sig, map[string]any{"signature_algorithm": other}); ok {
					viol("tampered-signature-verified", vsig("other signature algorithm"), "rsa signature of %s verifies as %s", sg.key.name, other)
					return
				}
			}
		case op == 13 && k.canEncrypt: // backup + restore under a new name
			resp, err, _ := do(Req{Op: logical.ReadOperation, Path: "transit/backup/" + k.name, Token: h.Root}, 0)
			if err != nil || resp == nil {
				note("backup %s -> %v", k.name, err)
				continue
			}
			nk := *k
			nk.name = fmt.Sprintf("%s-r%d", k.name, i)
			from := disk.LogLen()
			_, err, inj := do(Req{Op: logical.UpdateOperation, Path: "transit/restore/" + nk.name, Token: h.Root, Data: map[string]any{"backup": resp.Data["backup"]}}, failK())
			note("restore %s as %s -> %v (injected=%v)", k.name, nk.name, err == nil, inj)
			if err != nil {
				if !inj {
					s.Probe("restore_refused")
				}
				continue
			}
			if !crashCheck("restore", from, nil, -1, -1) {
				return
			}
			keys = append(keys, &nk)
			for _, c := range append([]*trCT{}, cts...) {
				if c.key == k {
					cc := *c
					cc.key = &nk
					cts = append(cts, &cc)
				}
			}
			if !checkAll(h, "after restore", nil, -1, -1) {
				return
			}
		case op == 14: // restart (drops the policy cache)
			nh, err := Reboot(disk.Fork(s), h)
			if err != nil {
				panic(err)
			}
			old := h
			h, disk = nh, nh.Disk
			old.Shutdown()
			note("restart")
			s.Faults["crash"]++
			if !checkAll(h, "after restart", nil, -1, -1) {
				return
			}
		default:
			s.Advance(time.Duration(1+tp.Pick(3600)) * time.Second)
		}
	}
	if s.Viol == nil {
		checkAll(h, "end", nil, -1, -1)
	}
	// ---- concurrent phase (a third of the runs): encrypt / decrypt / rewrap
	// requests race with rotate and config on one key, at storage-operation
	// and lock-hand-off granularity
	if s.Viol == nil && !s.Trunc && tp.Pick(3) == 0 {
		var k *trKey
		for _, x := range keys {
			if x.canEncrypt && !x.convergent {
				k = x
			}
		}
		if k != nil {
			c17Concurrent(rc, h, k, &cts, note, viol)
			if s.Viol == nil && !s.Trunc {
				// the durable state equals what the live node served: a fresh
				// Core (cold cache) answers every ciphertext the same way
				nh, err := Reboot(disk.Fork(s), h)
				if err != nil {
					panic(err)
				}
				old := h
				h, disk = nh, nh.Disk
				old.Shutdown()
				checkAll(h, "after concurrent phase + restart", nil, -1, -1)
			}
		}
	}
	s.ProbeN("crash_prefixes", crashes)
	s.ProbeN("ciphertexts", len(cts))
	rc.Res.Evals = crashes + len(cts) + 1
	rc.Res.Sample = map[string]any{"history": tail(hist, 25), "ciphertexts": len(cts), "crash_prefixes": crashes}
	rc.Res.StateSig = fmt.Sprintf("k%d/c%d/s%d", len(keys), len(cts), len(sigs))
}

// c17Concurrent: 3-4 client tasks on key k. Oracle: every ciphertext produced
// names a version between the latest version before the phase and after it;
// a decrypt answers with exactly the plaintext or an error; afterwards the
// key reports latest = before + successful rotations and a minimum decryption
// version that one of the (successful) config requests - or nobody - set, and
// every ciphertext, old and new, decrypts iff its version is admitted.
func c17Concurrent(rc *RunCtx, h *CoreH, k *trKey, cts *[]*trCT, note func(string, ...any), viol func(string, map[string]any, string, ...any)) {
	s, tp := rc.S, rc.S.Tape
	latest0, minDec0 := k.latest, k.minDec
	type encRes struct {
		c   *trCT
		err error
	}
	var encs []*encRes
	rotOK := 0
	var cfgOK []int
	var mutErrs []string // rotate / config requests that returned an error (no fault is injected in this phase)
	var panics []string
	guard := func(f func()) func() {
		return func() {
			defer func() {
				if r := recover(); r != nil {
					s.mu.Lock()
					panics = append(panics, fmt.Sprint(r))
					s.mu.Unlock()
				}
			}()
			f()
		}
	}
	nTasks := 3 + tp.Pick(2)
	type decRes struct {
		c   *trCT
		got string
		err error
	}
	var decs []*decRes
	s.SwarmFreeze()
	s.SetControlled()
	for i := 0; i < nTasks; i++ {
		tag := fmt.Sprintf("x%d", i)
		switch kind := tp.Pick(5); {
		case kind <= 1: // encrypt twice
			for j := 0; j < 2; j++ {
				pt := []byte(fmt.Sprintf("conc-%d-%d-%d", i, j, tp.Pick(1000)))
				e := &encRes{c: &trCT{key: k, pt: pt}}
				data := map[string]any{"plaintext": b64(pt)}
				if k.derived {
					e.c.ctx = []byte("ctx-0")
					data["context"] = b64(e.c.ctx)
				}
				encs = append(encs, e)
				if j == 0 {
					e2 := e
					d2 := data
					s.Go(tag, guard(func() {
						resp, err := h.Do(tag, Req{Op: logical.UpdateOperation, Path: "transit/encrypt/" + k.name, Token: h.Root, Data: d2})
						if err == nil && resp != nil && resp.IsError() {
							err = resp.Error()
						}
						e2.err = err
						if err == nil && resp != nil {
							e2.c.ct = fmt.Sprint(resp.Data["ciphertext"])
							e2.c.version = ctVersion(e2.c.ct)
						}
					}))
				} else {
					encs = encs[:len(encs)-1]
				}
			}
		case kind == 2: // rotate
			s.Go(tag, guard(func() {
				resp, err := h.Do(tag, Req{Op: logical.UpdateOperation, Path: "transit/keys/" + k.name + "/rotate", Token: h.Root})
				s.mu.Lock()
				if err == nil && (resp == nil || !resp.IsError()) {
					rotOK++
				} else {
					mutErrs = append(mutErrs, fmt.Sprintf("rotate: %v %v", err, resp))
				}
				s.mu.Unlock()
			}))
		case kind == 3: // config: raise / lower min_decryption_version
			nd := 1 + tp.Pick(latest0)
			s.Go(tag, guard(func() {
				resp, err := h.Do(tag, Req{Op: logical.UpdateOperation, Path: "transit/keys/" + k.name + "/config", Token: h.Root, Data: map[string]any{"min_decryption_version": nd, "min_encryption_version": 0}})
				s.mu.Lock()
				if err == nil && (resp == nil || !resp.IsError()) {
					cfgOK = append(cfgOK, nd)
				} else {
					mutErrs = append(mutErrs, fmt.Sprintf("config min_dec=%d: %v %v", nd, err, resp))
				}
				s.mu.Unlock()
			}))
		default: // decrypt an existing ciphertext of this key
			var mine []*trCT
			for _, c := range *cts {
				if c.key == k {
					mine = append(mine, c)
				}
			}
			if len(mine) == 0 {
				continue
			}
			c := mine[tp.Pick(len(mine))]
			d := &decRes{c: c}
			decs = append(decs, d)
			s.Go(tag, guard(func() {
				data := map[string]any{"ciphertext": c.ct}
				if c.ctx != nil {
					data["context"] = b64(c.ctx)
				}
				if c.aad != nil {
					data["associated_data"] = b64(c.aad)
				}
				resp, err := h.Do(tag, Req{Op: logical.UpdateOperation, Path: "transit/decrypt/" + k.name, Token: h.Root, Data: data})
				if err == nil && resp != nil && resp.IsError() {
					err = resp.Error()
				}
				d.err = err
				if err == nil && resp != nil {
					b, _ := base64.StdEncoding.DecodeString(fmt.Sprint(resp.Data["plaintext"]))
					d.got = string(b)
				}
			}))
		}
	}
	s.Run()
	s.PassThrough()
	if s.Trunc || s.Viol != nil {
		return
	}
	s.Probe("concurrent_phase")
	note("concurrent phase on %s: %d encrypts, %d rotations ok, configs ok %v, %d decrypts, failed mutations %v", k.name, len(encs), rotOK, cfgOK, len(decs), mutErrs)
	sig := map[string]any{"phase": "concurrent", "key_type": k.typ}
	if len(mutErrs) > 0 {
		// A rotate / config request failed although nothing was injected: its
		// storage transaction (begun before it got the key's lock) lost the
		// commit against the other mutation. "A rotate/config that returned an
		// error changed nothing" is judged first; if it did change the cached
		// key, everything after it (other requests failing, panicking, using a
		// version that was never persisted) is a symptom of that, not a
		// separate violation - the run stops here.
		s.Probe("concurrent_mutation_lost_commit")
		resp, err := h.Do("readkey", Req{Op: logical.ReadOperation, Path: "transit/keys/" + k.name, Token: h.Root})
		changed := len(panics) > 0 || err != nil || resp == nil || resp.IsError()
		lv, md := 0, 0
		if !changed {
			lv, md = toInt(resp.Data["latest_version"]), toInt(resp.Data["min_decryption_version"])
			okMin := md == minDec0
			for _, v := range cfgOK {
				okMin = okMin || v == md
			}
			changed = lv != latest0+rotOK || !okMin
		}
		if changed {
			viol("failed-mutation-changed-state", map[string]any{"op": "concurrent rotate/config", "commit_failed": true},
				"concurrent mutations of %s: %v returned an error (commit conflict, no fault injected), yet the key now reports latest=%d min_dec=%d (before: latest=%d min_dec=%d; successful rotations %d, successful configs %v); panics in later requests: %v", k.name, mutErrs, lv, md, latest0, minDec0, rotOK, cfgOK, panics)
		}
		s.Trunc = true // the rest of this run would only re-observe the same damage
		return
	}
	if len(panics) > 0 {
		viol("panic-in-request", map[string]any{"where": "transit concurrent phase"}, "a request of the concurrent phase panicked: %v", panics)
		return
	}
	for _, d := range decs {
		if d.err == nil && d.got != string(d.c.pt) {
			viol("decrypt-returned-other-bytes", sig, "concurrent decrypt of a v%d ciphertext of %s returned %q, the plaintext was %q", d.c.version, k.name, d.got, d.c.pt)
			return
		}
	}
	for _, e := range encs {
		if e.err != nil {
			continue
		}
		if e.c.version < latest0 || e.c.version > latest0+rotOK {
			viol("encrypt-wrong-version", sig, "an encrypt racing with %d rotations of %s used version %d; the latest version was %d before and %d after", rotOK, k.name, e.c.version, latest0, latest0+rotOK)
			return
		}
		*cts = append(*cts, e.c)
	}
	resp, err := h.Do("readkey", Req{Op: logical.ReadOperation, Path: "transit/keys/" + k.name, Token: h.Root})
	if err != nil || resp == nil || resp.IsError() {
		return
	}
	lv, md := toInt(resp.Data["latest_version"]), toInt(resp.Data["min_decryption_version"])
	if lv != latest0+rotOK {
		viol("rotation-lost-or-invented", sig, "%d rotations of %s succeeded concurrently, latest_version went from %d to %d", rotOK, k.name, latest0, lv)
		return
	}
	okMin := md == minDec0
	for _, v := range cfgOK {
		if v == md {
			okMin = true
		}
	}
	if !okMin {
		viol("config-lost-or-invented", sig, "min_decryption_version of %s is %d after the concurrent phase; it was %d and the successful config requests set %v", k.name, md, minDec0, cfgOK)
		return
	}
	k.latest, k.minDec, k.minEnc = lv, md, 0
}
