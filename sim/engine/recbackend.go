package verifsim

import (
	"context"
	"encoding/json"
	"fmt"
	"strings"
	"sync"
	"sync/atomic"
	"time"

	"github.com/openbao/openbao/sdk/v2/framework"
	"github.com/openbao/openbao/sdk/v2/logical"
)

// recbackend — the workload backend: a secrets engine and an auth method
// that record every handler invocation, every lease callback and what they
// did, so that oracles can judge "what the backend saw".
//
//	secret engine paths:
//	  data/<p>     read/create/update/delete/list on req.Storage (values may carry canaries)
//	  creds/<name> read: issues a leased secret (ttl, max_ttl request fields), recorded; revoke/renew recorded
//	  fail/<p>     handler returns an error
//	  open/<p>     declared unauthenticated
//	  admin/<p>    declared root-protected (needs sudo)
//	  echo         returns the request data (audit payload shapes)
//	auth method paths:
//	  login        unauthenticated; returns Auth{policies, ttl, max_ttl, period, num_uses, token_type ...}
//	  data/<p>     authenticated storage path

type RecEvent struct {
	Evt     int64 // global event sequence (shared with the audit hub when set)
	Step    int
	Kind    string // handler | exist | revoke | renew | login
	Mount   string // mount uuid / name given at factory time
	ReqID   string
	Op      string
	Path    string
	Token   string // client token of the request (as seen by the backend: empty unless forwarded)
	SecID   string // secret id for creds/revoke/renew
	Err     bool
	Started int
}

type Recorder struct {
	mu     sync.Mutex
	sim    *Sim
	Events []RecEvent
	// RevokeFails: number of times revoke of a secret id (or "*") fails before succeeding
	RevokeFails map[string]int
	Issued      map[string]bool // secret ids handed to the core
	Revoked     map[string]int  // successful revokes per secret id
	GateHandler bool            // park on handler entry (scheduling point)
	EvtCounter  *atomic.Int64   // optional shared event counter
	n           int
}

func NewRecorder(s *Sim) *Recorder {
	return &Recorder{sim: s, RevokeFails: map[string]int{}, Issued: map[string]bool{}, Revoked: map[string]int{}}
}

func (r *Recorder) add(e RecEvent) {
	r.mu.Lock()
	defer r.mu.Unlock()
	if r.sim != nil {
		e.Step = r.sim.Steps
	}
	if r.EvtCounter != nil {
		e.Evt = r.EvtCounter.Add(1)
	}
	r.Events = append(r.Events, e)
}

func (r *Recorder) Snapshot() []RecEvent {
	r.mu.Lock()
	defer r.mu.Unlock()
	return append([]RecEvent(nil), r.Events...)
}

func (r *Recorder) HandlerEvents(reqID string) []RecEvent {
	var out []RecEvent
	for _, e := range r.Snapshot() {
		if e.ReqID == reqID && e.Kind == "handler" {
			out = append(out, e)
		}
	}
	return out
}

func (r *Recorder) nextSecret() string {
	r.mu.Lock()
	defer r.mu.Unlock()
	r.n++
	return fmt.Sprintf("sec-%d", r.n)
}

type recBackend struct {
	*framework.Backend
	rec   *Recorder
	mount string
	auth  bool
}

// RecFactory returns a logical.Factory for the recording secrets engine or
// auth method. The mount is identified by config "rec_name" or its UUID.
func RecFactory(rec *Recorder, auth bool) logical.Factory {
	return func(ctx context.Context, conf *logical.BackendConfig) (logical.Backend, error) {
		b := &recBackend{rec: rec, auth: auth}
		b.mount = conf.Config["rec_name"]
		if b.mount == "" {
			b.mount = conf.BackendUUID
		}
		strField := func() *framework.FieldSchema { return &framework.FieldSchema{Type: framework.TypeString} }
		pathFields := map[string]*framework.FieldSchema{
			"p":     strField(),
			"value": strField(),
		}
		ops := func(h framework.OperationFunc, list bool) map[logical.Operation]framework.OperationHandler {
			m := map[logical.Operation]framework.OperationHandler{
				logical.ReadOperation:   &framework.PathOperation{Callback: h},
				logical.CreateOperation: &framework.PathOperation{Callback: h},
				logical.UpdateOperation: &framework.PathOperation{Callback: h},
				logical.DeleteOperation: &framework.PathOperation{Callback: h},
			}
			if list {
				m[logical.ListOperation] = &framework.PathOperation{Callback: h}
			}
			return m
		}
		fb := &framework.Backend{
			BackendType: logical.TypeLogical,
			PathsSpecial: &logical.Paths{
				Unauthenticated: []string{"open/*", "login"},
				Root:            []string{"admin/*"},
			},
			Paths: []*framework.Path{
				{Pattern: "data/" + framework.MatchAllRegex("p"), Fields: pathFields, Operations: ops(b.handleData, true), ExistenceCheck: b.exist},
				{Pattern: "data/?$", Fields: pathFields, Operations: map[logical.Operation]framework.OperationHandler{logical.ListOperation: &framework.PathOperation{Callback: b.handleData}}},
				{Pattern: "open/" + framework.MatchAllRegex("p"), Fields: pathFields, Operations: ops(b.handleData, false), ExistenceCheck: b.exist},
				{Pattern: "admin/" + framework.MatchAllRegex("p"), Fields: pathFields, Operations: ops(b.handleData, false), ExistenceCheck: b.exist},
				{Pattern: "fail/" + framework.MatchAllRegex("p"), Fields: pathFields, Operations: ops(b.handleFail, false), ExistenceCheck: b.exist},
				{
					Pattern: "creds/" + framework.GenericNameRegex("name"),
					Fields: map[string]*framework.FieldSchema{
						"name":    strField(),
						"ttl":     {Type: framework.TypeDurationSecond},
						"max_ttl": {Type: framework.TypeDurationSecond},
						"canary":  strField(),
						"norenew": {Type: framework.TypeBool},
					},
					Operations: map[logical.Operation]framework.OperationHandler{
						logical.ReadOperation:   &framework.PathOperation{Callback: b.handleCreds},
						logical.UpdateOperation: &framework.PathOperation{Callback: b.handleCreds},
					},
				},
				{
					Pattern: "echo",
					Fields:  map[string]*framework.FieldSchema{},
					Operations: map[logical.Operation]framework.OperationHandler{
						logical.UpdateOperation: &framework.PathOperation{Callback: b.handleEcho},
						logical.ReadOperation:   &framework.PathOperation{Callback: b.handleEcho},
					},
				},
				{
					Pattern: "login",
					Fields: map[string]*framework.FieldSchema{
						"policies":         {Type: framework.TypeCommaStringSlice},
						"ttl":              {Type: framework.TypeDurationSecond},
						"max_ttl":          {Type: framework.TypeDurationSecond},
						"period":           {Type: framework.TypeDurationSecond},
						"explicit_max_ttl": {Type: framework.TypeDurationSecond},
						"num_uses":         {Type: framework.TypeInt},
						"token_type":       strField(),
						"alias":            strField(),
						"norenew":          {Type: framework.TypeBool},
					},
					Operations: map[logical.Operation]framework.OperationHandler{
						logical.UpdateOperation: &framework.PathOperation{Callback: b.handleLogin},
					},
				},
			},
			Secrets: []*framework.Secret{{
				Type:   "rec",
				Fields: map[string]*framework.FieldSchema{"id": strField(), "canary": strField()},
				Renew:  b.secretRenew,
				Revoke: b.secretRevoke,
			}},
			AuthRenew: b.authRenew,
		}
		if auth {
			fb.BackendType = logical.TypeCredential
		}
		b.Backend = fb
		if err := fb.Setup(ctx, conf); err != nil {
			return nil, err
		}
		return b, nil
	}
}

func ctxReqID(ctx context.Context, req *logical.Request) string {
	if id := reqID(ctx); id != "" {
		return id
	}
	return req.ID
}

func (b *recBackend) enter(ctx context.Context, req *logical.Request, kind string) {
	if b.rec.GateHandler && b.rec.sim != nil {
		b.rec.sim.Gate("backend", kind+" "+string(req.Operation)+" "+req.Path, false)
	}
	b.rec.add(RecEvent{Kind: kind, Mount: b.mount, ReqID: ctxReqID(ctx, req), Op: string(req.Operation), Path: req.Path})
}

func (b *recBackend) exist(ctx context.Context, req *logical.Request, d *framework.FieldData) (bool, error) {
	b.rec.add(RecEvent{Kind: "exist", Mount: b.mount, ReqID: ctxReqID(ctx, req), Op: string(req.Operation), Path: req.Path})
	e, err := req.Storage.Get(ctx, "data/"+req.Path)
	return e != nil, err
}

func (b *recBackend) handleData(ctx context.Context, req *logical.Request, d *framework.FieldData) (*logical.Response, error) {
	b.enter(ctx, req, "handler")
	key := "data/" + req.Path
	switch req.Operation {
	case logical.ReadOperation:
		e, err := req.Storage.Get(ctx, key)
		if err != nil {
			return nil, err
		}
		if e == nil {
			return nil, nil
		}
		return &logical.Response{Data: map[string]any{"value": string(e.Value)}}, nil
	case logical.CreateOperation, logical.UpdateOperation:
		v, _ := d.Get("value").(string)
		if err := req.Storage.Put(ctx, &logical.StorageEntry{Key: key, Value: []byte(v)}); err != nil {
			return nil, err
		}
		return nil, nil
	case logical.DeleteOperation:
		return nil, req.Storage.Delete(ctx, key)
	case logical.ListOperation:
		p := key
		if !strings.HasSuffix(p, "/") {
			p += "/"
		}
		ks, err := req.Storage.List(ctx, p)
		if err != nil {
			return nil, err
		}
		return logical.ListResponse(ks), nil
	}
	return nil, logical.ErrUnsupportedOperation
}

func (b *recBackend) handleFail(ctx context.Context, req *logical.Request, d *framework.FieldData) (*logical.Response, error) {
	b.enter(ctx, req, "handler")
	return nil, fmt.Errorf("recbackend: handler failure requested")
}

func (b *recBackend) handleEcho(ctx context.Context, req *logical.Request, d *framework.FieldData) (*logical.Response, error) {
	b.enter(ctx, req, "handler")
	out := map[string]any{}
	for k, v := range req.Data {
		out[k] = v
	}
	return &logical.Response{Data: out}, nil
}

func (b *recBackend) handleCreds(ctx context.Context, req *logical.Request, d *framework.FieldData) (*logical.Response, error) {
	b.enter(ctx, req, "handler")
	id := b.rec.nextSecret()
	canary, _ := d.Get("canary").(string)
	var ttl, maxTTL time.Duration
	if v, ok := d.GetOk("ttl"); ok {
		ttl = time.Duration(v.(int)) * time.Second
	}
	if v, ok := d.GetOk("max_ttl"); ok {
		maxTTL = time.Duration(v.(int)) * time.Second
	}
	if maxTTL > 0 && ttl > maxTTL {
		ttl = maxTTL // a backend never asks for more than its own maximum
	}
	resp := b.Secret("rec").Response(map[string]any{"secret_id": id, "password": canary},
		map[string]any{"id": id, "canary": canary, "ttl": int(ttl / time.Second), "max_ttl": int(maxTTL / time.Second)})
	resp.Secret.TTL = ttl
	resp.Secret.MaxTTL = maxTTL
	resp.Secret.Renewable = !d.Get("norenew").(bool)
	b.rec.mu.Lock()
	b.rec.Issued[id] = true
	b.rec.mu.Unlock()
	b.rec.add(RecEvent{Kind: "issue", Mount: b.mount, ReqID: ctxReqID(ctx, req), Path: req.Path, SecID: id})
	return resp, nil
}

func (b *recBackend) secretRevoke(ctx context.Context, req *logical.Request, d *framework.FieldData) (*logical.Response, error) {
	id, _ := req.Secret.InternalData["id"].(string)
	b.rec.mu.Lock()
	fail := false
	for _, k := range []string{id, "*"} {
		if b.rec.RevokeFails[k] > 0 {
			b.rec.RevokeFails[k]--
			fail = true
			break
		}
	}
	if !fail {
		b.rec.Revoked[id]++
	}
	b.rec.mu.Unlock()
	b.rec.add(RecEvent{Kind: "revoke", Mount: b.mount, ReqID: ctxReqID(ctx, req), SecID: id, Err: fail})
	if fail {
		return nil, fmt.Errorf("recbackend: revoke failure requested")
	}
	return nil, nil
}

func (b *recBackend) secretRenew(ctx context.Context, req *logical.Request, d *framework.FieldData) (*logical.Response, error) {
	id, _ := req.Secret.InternalData["id"].(string)
	b.rec.add(RecEvent{Kind: "renew", Mount: b.mount, ReqID: ctxReqID(ctx, req), SecID: id})
	// what dynamic-secret backends do: extend within the role's ttl / max_ttl
	num := func(k string) time.Duration {
		switch v := req.Secret.InternalData[k].(type) {
		case int:
			return time.Duration(v) * time.Second
		case float64:
			return time.Duration(v) * time.Second
		case json.Number:
			n, _ := v.Int64()
			return time.Duration(n) * time.Second
		}
		return 0
	}
	return framework.LeaseExtend(num("ttl"), num("max_ttl"), b.System())(ctx, req, d)
}

func (b *recBackend) handleLogin(ctx context.Context, req *logical.Request, d *framework.FieldData) (*logical.Response, error) {
	b.enter(ctx, req, "login")
	auth := &logical.Auth{
		Policies:     d.Get("policies").([]string),
		Metadata:     map[string]string{"rec": "1"},
		InternalData: map[string]any{"rec": "1"},
		DisplayName:  "rec",
	}
	auth.LeaseOptions.Renewable = !d.Get("norenew").(bool)
	if v, ok := d.GetOk("ttl"); ok {
		auth.TTL = time.Duration(v.(int)) * time.Second
	}
	if v, ok := d.GetOk("max_ttl"); ok {
		auth.MaxTTL = time.Duration(v.(int)) * time.Second
	}
	if v, ok := d.GetOk("period"); ok {
		auth.Period = time.Duration(v.(int)) * time.Second
	}
	if v, ok := d.GetOk("explicit_max_ttl"); ok {
		auth.ExplicitMaxTTL = time.Duration(v.(int)) * time.Second
	}
	if v, ok := d.GetOk("num_uses"); ok {
		auth.NumUses = v.(int)
	}
	switch d.Get("token_type").(string) {
	case "batch":
		auth.TokenType = logical.TokenTypeBatch
	case "service":
		auth.TokenType = logical.TokenTypeService
	}
	if a := d.Get("alias").(string); a != "" {
		auth.Alias = &logical.Alias{Name: a}
	}
	return &logical.Response{Auth: auth}, nil
}

func (b *recBackend) authRenew(ctx context.Context, req *logical.Request, d *framework.FieldData) (*logical.Response, error) {
	b.rec.add(RecEvent{Kind: "authrenew", Mount: b.mount, ReqID: ctxReqID(ctx, req)})
	// what credential backends do: re-assert the role's ttl / max_ttl / period
	resp := &logical.Response{Auth: req.Auth}
	return resp, nil
}
