package verifsim

import (
	"context"
	crand "crypto/rand"
	"fmt"

	"github.com/openbao/openbao/v2/internal/builtin/logical/kv"
	"github.com/openbao/openbao/v2/internal/helper/namespace"
	"github.com/openbao/openbao/v2/internal/vault"
	"github.com/openbao/openbao/v2/internal/vault/barrier"
	"github.com/openbao/openbao/sdk/v2/logical"
)

// C10 part (b): Core level. Initialize with generated Shamir (n, t); unseal
// with share subsets in any order, with duplicates and foreign shares;
// sys/rotate and rekey to new (n', t'); after each of them a crash at EVERY
// write prefix, reboot of a fresh Core on exactly the durable prefix, unseal
// with the shares the operator legitimately holds at that point, and read
// back all KV data written earlier.

func runC10Core(rc *RunCtx) {
	rc.Cfg("mode", "core")
	inBubble(rc, func() { c10CoreBody(rc) })
}

func c10CoreBody(rc *RunCtx) {
	s, tp := rc.S, rc.S.Tape
	n := 1 + tp.Pick(5)
	t := 1
	if n > 1 {
		t = 2 + tp.Pick(n-1)
	}
	opts := CoreOpts{
		DisableCache: tp.Pick(2) == 1, Plain: tp.Pick(3) == 2, Shares: n, Thresh: t,
		Logical: map[string]logical.Factory{"kv": kv.Factory},
	}
	// a third of the runs use an auto-unseal style seal (root key stored wrapped
	// by a test KMS, no unseal shares; recovery keys instead)
	autoSeal := tp.Pick(3) == 2
	sealKind := "shamir"
	if autoSeal {
		opts.AutoSealSecret = []byte(fmt.Sprintf("kms-secret-%d", tp.Pick(1000)))
		sealKind = "auto"
	}
	rc.Cfg("seal", sealKind)
	rc.Cfg("shares", fmt.Sprintf("%d/%d", t, n))
	rc.Cfg("plain_disk", opts.Plain)
	disk := NewDisk(s)
	h, err := BootCore(disk, opts)
	if err != nil {
		panic(err)
	}
	defer func() { h.Shutdown() }()
	must(h.Mount("secret", "kv", nil))
	data := map[string]string{}
	var hist []string
	write := func(i int) {
		k := fmt.Sprintf("secret/k%d", i)
		v := fmt.Sprintf("value-%d", i)
		if _, err := h.RootWrite(k, map[string]any{"v": v}); err != nil {
			if len(hist) == 0 {
				panic(err) // before any seal/rotation step: harness trouble
			}
			s.Violate("C10", "valid-operation-refused", map[string]any{"op": "write"}, "a write after %v failed with no fault injected: %v", hist, err)
			return
		}
		data[k] = v
	}
	for i := 0; i < 2+tp.Pick(3); i++ {
		write(i)
	}
	viol := func(class string, sig map[string]any, f string, a ...any) {
		s.Violate("C10", class, sig, "%s; history: %v", fmt.Sprintf(f, a...), hist)
	}
	readAll := func(x *CoreH, sig map[string]any, where string) bool {
		for k, v := range data {
			resp, err := x.Do("verify", Req{Op: logical.ReadOperation, Path: k, Token: x.Root})
			if err != nil || resp == nil || resp.Data["v"] != v {
				viol("entry-lost-after-crash", sig, "%s: %q does not read back (%v, %v)", where, k, resp, err)
				return false
			}
		}
		return true
	}
	crashes := 0
	// crash at every write prefix in (from, to]; the operator holds `shares`
	// (and, once the operation has returned, `newShares`).
	crashCheck := func(op string, from int, oldKeys [][]byte, oldT int, newKeys [][]byte, newT int) bool {
		to := disk.LogLen()
		for k := from; k <= to; k++ {
			crashes++
			sig := map[string]any{"op": op, "level": "core", "seal": sealKind, "write_prefix": k - from, "writes": to - from, "mid_operation": k > from && k < to}
			fd := disk.ForkAt(k, s)
			try := func(keys [][]byte, thr int) (*CoreH, error) {
				x := *h
				x.Keys, x.Opts.Thresh = keys, thr
				return Reboot(fd.Fork(s), &x)
			}
			nh, err := try(oldKeys, oldT)
			with := "old"
			if err != nil && newKeys != nil {
				nh, err = try(newKeys, newT)
				with = "new"
			}
			if err != nil {
				// soft: the run goes on (the interrupted rekey / root rotation are
				// known findings F6 / F20 and would otherwise mask everything that
				// follows them in a history)
				sig["unsealed_with"] = "none"
				s.ViolateSoft("C10", "unsealable-after-crash", sig, "after a crash at write %d of %d inside %s neither the shares the operator holds nor the new ones unseal the server: %v; history: %v", k-from, to-from, op, err, hist)
				continue
			}
			ok := true
			if with == "new" && k < to {
				sig["unsealed_with"] = "new-shares-never-returned"
				viol("unsealable-after-crash", sig, "after a crash at write %d of %d inside %s only the NEW shares unseal the server, but the operation had not returned them yet", k-from, to-from, op)
				ok = false
			}
			if ok {
				ok = readAll(nh, sig, fmt.Sprintf("after crash at write %d of %d inside %s", k-from, to-from, op))
			}
			nh.Shutdown()
			if !ok {
				return false
			}
		}
		return true
	}

	// storage error (not a crash) at the k-th write of a key operation, the
	// node keeps running: the operation reports failure (or success), the
	// operator carries on - a root key rotation, a seal, an unseal with the
	// shares that are valid according to what the operation REPORTED - and
	// everything written earlier must still be readable.
	faultChecks := 0
	type keyOp func(x *CoreH, keys [][]byte, thr int) (newKeys [][]byte, newThr int, err error)
	faultCheck := func(op string, from int, writes int, keys [][]byte, thr int, run keyOp) bool {
		for k := 1; k <= writes && s.Viol == nil; k++ {
			faultChecks++
			fd := disk.ForkAt(from, s)
			x0 := *h
			x0.Keys, x0.Opts.Thresh = keys, thr
			x, err := Reboot(fd, &x0)
			if err != nil {
				panic(fmt.Sprint("reboot before fault run: ", err))
			}
			fd.FailPrefix, fd.FailOps, fd.FailNth = "", "put del tx-put tx-del commit", k
			nk, nt, operr := run(x, keys, thr)
			fired := fd.FailHits > 0
			fd.FailNth = 0
			if fired {
				s.Faults["err-na"]++
			}
			curKeys, curThr := keys, thr
			if operr == nil && nk != nil {
				curKeys, curThr = nk, nt
			}
			sig := map[string]any{"op": op, "level": "core", "failed_write": k, "op_reported_error": operr != nil}
			follow := tp.Pick(3)
			sig["then"] = []string{"restart", "rotate-root+restart", "rotate+restart"}[follow]
			switch follow {
			case 1:
				x.RootWrite("sys/rotate/root", nil)
			case 2:
				x.RootWrite("sys/rotate", nil)
			}
			// what the live node writes after the failed operation (and its
			// follow-up) must be readable after the restart too
			lateKey, lateVal := fmt.Sprintf("secret/after-fault-%d", k), fmt.Sprintf("late-%d", k)
			_, lateErr := x.RootWrite(lateKey, map[string]any{"v": lateVal})
			x.Shutdown()
			y0 := x0
			y0.Keys, y0.Opts.Thresh = curKeys, curThr
			y, err := Reboot(fd.Fork(s), &y0)
			if err != nil {
				viol("unsealable-after-failed-operation", sig, "%s hit a storage error at its write %d of %d (the operation reported: %v); after %s the shares the operator holds (%d-of-%d) no longer unseal the server: %v", op, k, writes, operr, sig["then"], curThr, len(curKeys), err)
				return false
			}
			ok := readAll(y, sig, fmt.Sprintf("after a storage error at write %d of %d inside %s, then %s", k, writes, op, sig["then"]))
			if ok && lateErr == nil {
				if r, err := y.Do("verify", Req{Op: logical.ReadOperation, Path: lateKey, Token: y.Root}); err != nil || r == nil || r.Data["v"] != lateVal {
					sig["written_after_the_failed_operation"] = true
					viol("entry-lost-after-crash", sig, "%s hit a storage error at its write %d of %d (reported: %v), then %s; an entry written on the live node after that does not read back after the restart: %v %v", op, k, writes, operr, sig["then"], r, err)
					ok = false
				}
			}
			y.Shutdown()
			if !ok {
				return false
			}
		}
		return true
	}
	doRekey := func(n2, t2 int) keyOp {
		return func(x *CoreH, keys [][]byte, thr int) ([][]byte, int, error) {
			if cerr := x.Core.RekeyInit(&vault.SealConfig{SecretShares: n2, SecretThreshold: t2}, false); cerr != nil {
				return nil, 0, cerr
			}
			conf, cerr := x.Core.RekeyConfig(false)
			if cerr != nil || conf == nil {
				return nil, 0, fmt.Errorf("rekey config: %v", cerr)
			}
			ctx := namespace.RootContext(context.Background())
			var res *vault.RekeyResult
			for j := 0; j < thr; j++ {
				r, cerr := x.Core.RekeyUpdate(ctx, append([]byte{}, keys[j]...), conf.Nonce, false)
				if cerr != nil {
					return nil, 0, cerr
				}
				res = r
			}
			if res == nil {
				return nil, 0, fmt.Errorf("no result")
			}
			return res.SecretShares, t2, nil
		}
	}
	doRotate := func(x *CoreH, keys [][]byte, thr int) ([][]byte, int, error) {
		_, err := x.RootWrite("sys/rotate", nil)
		return nil, 0, err
	}
	doRotateRoot := func(x *CoreH, keys [][]byte, thr int) ([][]byte, int, error) {
		_, err := x.RootWrite("sys/rotate/root", nil)
		return nil, 0, err
	}

	steps := 2 + tp.Pick(4)
	nsDone := false
	for i := 0; i < steps && s.Viol == nil; i++ {
		switch tp.Pick(6) {
		case 5: // per-namespace seals, nested: outer/ and outer/inner/ each with its own Shamir seal
			if nsDone {
				write(400 + i)
				hist = append(hist, "write")
				continue
			}
			nsDone = true
			hist = append(hist, "nested namespace seals")
			mk := func(nsHeader, name string) string {
				r, err := h.Do("ns", Req{Op: logical.UpdateOperation, Path: "sys/namespaces/" + name, Token: h.Root, NS: nsHeader, Data: map[string]any{"seal": `seal "shamir" { shares = 1  threshold = 1 }`}})
				if err != nil || r == nil || r.IsError() {
					return ""
				}
				key := ""
				switch ks := r.Data["key_shares"].(type) {
				case []string:
					if len(ks) > 0 {
						key = ks[0]
					}
				case []any:
					if len(ks) > 0 {
						key = fmt.Sprint(ks[0])
					}
				}
				h.Do("ns", Req{Op: logical.UpdateOperation, Path: "sys/namespaces/" + name + "/unseal", Token: h.Root, NS: nsHeader, Data: map[string]any{"key": key}})
				return key
			}
			outerKey := mk("", "outer")
			innerKey := mk("outer/", "inner")
			if outerKey == "" || innerKey == "" {
				s.Probe("nested_namespaces_not_created")
				continue
			}
			nsdo := func(ns string, op logical.Operation, path string, data map[string]any) (*logical.Response, error) {
				return h.Do("ns", Req{Op: op, Path: path, Token: h.Root, NS: ns, Data: data})
			}
			nsdo("outer/inner/", logical.UpdateOperation, "sys/mounts/secret", map[string]any{"type": "kv"})
			if _, err := nsdo("outer/inner/", logical.UpdateOperation, "secret/n", map[string]any{"v": "inner-value"}); err != nil {
				s.Probe("nested_namespaces_not_created")
				continue
			}
			ib := vault.VerifBarrierFor(h.Core, "outer/inner/")
			if ib == nil || ib == vault.VerifBarrier(h.Core) {
				s.Probe("nested_barrier_not_found")
				continue
			}
			if r, err := nsdo("", logical.UpdateOperation, "sys/namespaces/outer/seal", nil); err != nil || (r != nil && r.IsError()) {
				viol("valid-operation-refused", map[string]any{"op": "namespace-seal"}, "sealing outer/ failed: %v %v", err, r)
				return
			}
			if !ib.Sealed() || barrier.VerifHoldsKeyMaterial(ib) {
				viol("sealed-namespace-barrier-open", map[string]any{"nested": true}, "outer/ is sealed; the barrier of outer/inner/ (own seal) is sealed=%v, holds key material=%v", ib.Sealed(), barrier.VerifHoldsKeyMaterial(ib))
				return
			}
			if r, err := nsdo("outer/inner/", logical.ReadOperation, "secret/n", nil); err == nil && r != nil && !r.IsError() && len(r.Data) > 0 {
				viol("sealed-core-served-request", map[string]any{"nested": true}, "a read inside outer/inner/ while outer/ is sealed returned %v", r.Data)
				return
			}
			nsdo("", logical.UpdateOperation, "sys/namespaces/outer/unseal", map[string]any{"key": outerKey})
			if r, err := nsdo("outer/inner/", logical.ReadOperation, "secret/n", nil); (err == nil && r != nil && !r.IsError() && len(r.Data) > 0) || !ib.Sealed() {
				viol("unsealed-below-threshold", map[string]any{"how": "outer-namespace-shares-only"}, "outer/ was unsealed with its own share; outer/inner/ (own seal, none of its shares supplied) is sealed=%v", ib.Sealed())
				return
			}
			nsdo("outer/", logical.UpdateOperation, "sys/namespaces/inner/unseal", map[string]any{"key": innerKey})
			if r, err := nsdo("outer/inner/", logical.ReadOperation, "secret/n", nil); err != nil || r == nil || r.Data["v"] != "inner-value" {
				viol("entry-lost-after-crash", map[string]any{"op": "namespace-seal-unseal", "level": "core"}, "after sealing outer/ and unsealing outer/ and outer/inner/ with their shares the entry of outer/inner/ does not read back: %v %v", r, err)
				return
			}
			s.Probe("nested_namespace_seal_cycle")
		case 4: // root key rotation through the API (sys/rotate/root)
			hist = append(hist, "sys/rotate/root")
			from := disk.LogLen()
			if _, err := h.RootWrite("sys/rotate/root", nil); err != nil {
				viol("valid-operation-refused", map[string]any{"op": "rotate-root"}, "sys/rotate/root failed with no fault injected: %v", err)
				return
			}
			if !crashCheck("rotate-root", from, h.Keys, t, nil, 0) {
				return
			}
			if !faultCheck("rotate-root", from, disk.LogLen()-from, h.Keys, t, doRotateRoot) {
				return
			}
			write(300 + i)
		case 0: // seal, then unseal with duplicates / foreign shares / any order
			hist = append(hist, "seal+unseal")
			if err := h.Core.Seal(h.Root); err != nil {
				viol("valid-operation-refused", map[string]any{"op": "seal"}, "seal with the root token failed with no fault injected: %v", err)
				return
			}
			if resp, err := h.Do("sealed", Req{Op: logical.ReadOperation, Path: "secret/k0", Token: h.Root}); err == nil {
				viol("sealed-core-served-request", nil, "request while sealed returned %v", resp)
				return
			}
			if t > 1 {
				// t-1 distinct shares + a duplicate must not unseal
				for j := 0; j < t-1; j++ {
					h.Core.Unseal(append([]byte{}, h.Keys[j]...))
				}
				h.Core.Unseal(append([]byte{}, h.Keys[0]...))
				if !h.Core.Sealed() {
					viol("unsealed-below-threshold", map[string]any{"how": "duplicate-share"}, "%d distinct shares plus a duplicate unsealed a %d-of-%d server", t-1, t, n)
					return
				}
				h.Core.ResetUnsealProcess()
				// t-1 shares + a foreign share must not unseal
				for j := 0; j < t-1; j++ {
					h.Core.Unseal(append([]byte{}, h.Keys[j]...))
				}
				foreign := make([]byte, len(h.Keys[0]))
				crand.Read(foreign)
				h.Core.Unseal(foreign)
				if !h.Core.Sealed() {
					viol("unsealed-below-threshold", map[string]any{"how": "foreign-share"}, "%d shares plus a foreign share unsealed a %d-of-%d server", t-1, t, n)
					return
				}
				h.Core.ResetUnsealProcess()
			}
			// a random subset of t distinct shares in random order
			idx := make([]int, n)
			for j := range idx {
				idx[j] = j
			}
			for j := n - 1; j > 0; j-- {
				r := tp.Pick(j + 1)
				idx[j], idx[r] = idx[r], idx[j]
			}
			for j := 0; j < t; j++ {
				if _, err := h.Core.Unseal(append([]byte{}, h.Keys[idx[j]]...)); err != nil {
					viol("threshold-shares-do-not-unseal", nil, "share %d of a valid subset was refused: %v", idx[j], err)
					return
				}
			}
			if h.Core.Sealed() {
				viol("threshold-shares-do-not-unseal", nil, "%d distinct valid shares did not unseal a %d-of-%d server", t, t, n)
				return
			}
			if !readAll(h, nil, "after seal/unseal") {
				return
			}
		case 1: // keyring rotation through the API
			hist = append(hist, "sys/rotate")
			from := disk.LogLen()
			if _, err := h.RootWrite("sys/rotate", nil); err != nil {
				viol("valid-operation-refused", map[string]any{"op": "rotate"}, "sys/rotate failed with no fault injected: %v", err)
				return
			}
			if !crashCheck("rotate", from, h.Keys, t, nil, 0) {
				return
			}
			if !faultCheck("rotate", from, disk.LogLen()-from, h.Keys, t, doRotate) {
				return
			}
			write(100 + i)
		case 2: // rekey to new (n', t')
			if autoSeal {
				write(500 + i)
				hist = append(hist, "write")
				continue
			}
			n2 := 1 + tp.Pick(5)
			t2 := 1
			if n2 > 1 {
				t2 = 2 + tp.Pick(n2-1)
			}
			hist = append(hist, fmt.Sprintf("rekey %d/%d->%d/%d", t, n, t2, n2))
			if cerr := h.Core.RekeyInit(&vault.SealConfig{SecretShares: n2, SecretThreshold: t2}, false); cerr != nil {
				viol("valid-operation-refused", map[string]any{"op": "rekey-init"}, "rekey init failed with no fault injected: %v", cerr)
				return
			}
			conf, cerr := h.Core.RekeyConfig(false)
			if cerr != nil || conf == nil {
				viol("valid-operation-refused", map[string]any{"op": "rekey-config"}, "rekey config unavailable after init: %v", cerr)
				return
			}
			ctx := namespace.RootContext(context.Background())
			var res *vault.RekeyResult
			from := disk.LogLen()
			rekeyFrom := disk.LogLen()
			for j := 0; j < t; j++ {
				from = disk.LogLen()
				r, cerr := h.Core.RekeyUpdate(ctx, append([]byte{}, h.Keys[j]...), conf.Nonce, false)
				if cerr != nil {
					// the shares are the currently valid ones: the barrier
					// refusing the root key they reconstruct is the property's
					// "unsealing succeeds with the correct key" failing
					viol("valid-operation-refused", map[string]any{"op": "rekey-update"}, "rekey update with valid share %d/%d failed with no fault injected: %v", j+1, t, cerr)
					return
				}
				res = r
			}
			if res == nil || len(res.SecretShares) != n2 {
				viol("rekey-returned-no-shares", nil, "rekey finished without returning %d shares", n2)
				return
			}
			if !crashCheck("barrier-rekey", from, h.Keys, t, res.SecretShares, t2) {
				return
			}
			if !faultCheck("barrier-rekey", rekeyFrom, disk.LogLen()-rekeyFrom, h.Keys, t, doRekey(n2, t2)) {
				return
			}
			h.Keys, h.Opts.Shares, h.Opts.Thresh = res.SecretShares, n2, t2
			n, t = n2, t2
			// the old shares are no longer valid once the new ones were returned: checked by reboot
			fd := disk.Fork(s)
			nh, err := Reboot(fd, h)
			if err != nil {
				viol("unsealable-after-rekey", nil, "the new shares returned by the rekey do not unseal a rebooted server: %v", err)
				return
			}
			ok := readAll(nh, nil, "after rekey + reboot")
			nh.Shutdown()
			if !ok {
				return
			}
		default:
			write(200 + i)
			hist = append(hist, "write")
		}
	}
	s.ProbeN("crash_prefixes", crashes)
	s.ProbeN("failed_write_runs", faultChecks)
	rc.Res.Evals = crashes + faultChecks + 1
	s.Steps += crashes
	rc.Res.Sample = map[string]any{"mode": "core", "history": hist, "crash_prefixes": crashes}
	rc.Res.StateSig = fmt.Sprintf("core/%v", hist)
}
