package verifsim

import (
	"context"
	"errors"
	"fmt"
	"strconv"
	"strings"
	"sync"

	"github.com/openbao/openbao/sdk/v2/logical"
	"github.com/openbao/openbao/sdk/v2/physical"
)

// ErrInjected is the storage error the simulator injects.
var ErrInjected = errors.New("verifsim: injected storage error")

// Mut is one durable mutation of the simulated disk. A committed
// transaction is one Mut with several writes (atomic).
type Mut struct {
	Seq    int
	Step   int // scheduler step at which it became durable
	Writes []KVWrite
	Task   string
	ReqID  string
}

type KVWrite struct {
	Key string
	Val []byte // nil: delete
}

// DiskOp is a recorded physical operation (for attribution oracles).
type DiskOp struct {
	Step  int
	Task  string
	ReqID string
	Op    string
	Key   string
	Err   bool
	// N is the number of entries a list/page operation returned (-1: not a
	// listing, or it failed); Res the entries themselves.
	N   int
	Res []string
}

// Disk is the simulated physical backend: a sorted map, an ordered log of
// every durable mutation (so any crash prefix can be materialised after the
// fact), a gate on every call and fault injection decided by the scheduler.
type Disk struct {
	mu   sync.Mutex
	kv   *KV
	Log  []Mut
	base *KV // state before Log[0]

	sim *Sim

	// OnWrite observers see every value that reaches the disk (C01 monitor).
	OnWrite []func(key string, val []byte, del bool)
	// RecordOps keeps a log of all operations with task/request attribution.
	RecordOps bool
	Ops       []DiskOp
	// FailKey, if set, makes ops on matching keys fail (deterministic faults).
	Reads, Writes int
	// PostGate adds a second scheduling point to every operation: after it
	// took effect on the disk, before its result reaches the caller (I/O
	// completion and continuation are different moments on a real machine).
	PostGate bool
	// FailPrefix/FailOps/FailNth: the FailNth-th (1-based) operation of a
	// kind listed in FailOps (space separated, e.g. "get tx-get list") on a
	// key with prefix FailPrefix fails once with err-na; FailHits counts it.
	// Used for faults inside background work (lease restore after a restart)
	// that no client task owns.
	FailPrefix string
	FailOps    string
	FailNth    int
	failSeen   int
	FailHits   int
	// FailNext makes the next N faultable operations fail with err-na when
	// no scheduler is in control (single-threaded storage harnesses).
	FailNext int
}

func NewDisk(s *Sim) *Disk {
	return &Disk{kv: NewKV(), base: NewKV(), sim: s}
}

// PlainDisk hides the transactional interface (no embedding: promoted
// methods would bring BeginTx back).
type PlainDisk struct{ D *Disk }

func (p PlainDisk) Put(ctx context.Context, e *physical.Entry) error { return p.D.Put(ctx, e) }
func (p PlainDisk) Get(ctx context.Context, k string) (*physical.Entry, error) {
	return p.D.Get(ctx, k)
}
func (p PlainDisk) Delete(ctx context.Context, k string) error { return p.D.Delete(ctx, k) }
func (p PlainDisk) List(ctx context.Context, pr string) ([]string, error) {
	return p.D.List(ctx, pr)
}
func (p PlainDisk) ListPage(ctx context.Context, pr, after string, limit int) ([]string, error) {
	return p.D.ListPage(ctx, pr, after, limit)
}

var (
	_ physical.TransactionalBackend = (*Disk)(nil)
	_ physical.Backend              = PlainDisk{}
)

func init() {
	var b physical.Backend = PlainDisk{}
	if _, ok := b.(physical.TransactionalBackend); ok {
		panic("PlainDisk must not be transactional")
	}
}

func reqID(ctx context.Context) string {
	if v := ctx.Value(logical.CtxKeyInFlightRequestID{}); v != nil {
		if s, ok := v.(string); ok {
			return s
		}
	}
	return ""
}

func (d *Disk) gate(ctx context.Context, op, key string, faultable bool) (Fault, int) {
	task := ""
	idx := -1
	f := FaultNone
	if s := d.sim; s != nil && s.Controlled() {
		f = s.Gate("disk", op+" "+key, faultable)
	} else if d.FailNext > 0 && faultable {
		d.FailNext--
		f = FaultErrNA
	}
	if d.FailNth > 0 && faultable && f == FaultNone && strings.HasPrefix(key, d.FailPrefix) && strings.Contains(" "+d.FailOps+" ", " "+op+" ") {
		d.mu.Lock()
		d.failSeen++
		if d.failSeen == d.FailNth {
			f = FaultErrNA
			d.FailHits++
		}
		d.mu.Unlock()
	}
	if d.RecordOps {
		d.mu.Lock()
		step := 0
		if d.sim != nil {
			step = d.sim.Steps
			if d.sim.cur != nil {
				task = d.sim.cur.Name
			}
		}
		idx = len(d.Ops)
		d.Ops = append(d.Ops, DiskOp{Step: step, Task: task, ReqID: reqID(ctx), Op: op, Key: key, Err: f == FaultErrNA, N: -1})
		d.mu.Unlock()
	}
	return f, idx
}

// setN records the result size of a recorded listing.
func (d *Disk) setN(idx int, r []string) {
	if idx < 0 {
		return
	}
	d.mu.Lock()
	if idx < len(d.Ops) {
		d.Ops[idx].N = len(r)
		d.Ops[idx].Res = r
	}
	d.mu.Unlock()
}

// OpsCopy returns the recorded operations (needs RecordOps).
func (d *Disk) OpsCopy() []DiskOp {
	d.mu.Lock()
	defer d.mu.Unlock()
	return append([]DiskOp{}, d.Ops...)
}

// post is the optional scheduling point between an operation taking effect
// and its caller continuing.
func (d *Disk) post(op, key string) {
	if d.PostGate {
		if s := d.sim; s != nil && s.Controlled() {
			s.Gate("disk", "ret "+op+" "+key, false)
		}
	}
}

func (d *Disk) appendMut(ctx context.Context, ws []KVWrite) {
	task := ""
	if d.sim != nil && d.sim.cur != nil {
		task = d.sim.cur.Name
	}
	step := 0
	if d.sim != nil {
		step = d.sim.Steps
	}
	d.Log = append(d.Log, Mut{Seq: len(d.Log) + 1, Step: step, Writes: ws, Task: task, ReqID: reqID(ctx)})
	for _, w := range ws {
		if w.Val == nil {
			d.kv.Delete(w.Key)
		} else {
			d.kv.Put(w.Key, w.Val)
		}
		for _, f := range d.OnWrite {
			f(w.Key, w.Val, w.Val == nil)
		}
	}
	d.Writes++
}

func (d *Disk) Put(ctx context.Context, e *physical.Entry) error {
	f, _ := d.gate(ctx, "put", e.Key, true)
	if f == FaultErrNA {
		return ErrInjected
	}
	if err := ctx.Err(); err != nil {
		return err
	}
	d.mu.Lock()
	v := append([]byte{}, e.Value...)
	d.appendMut(ctx, []KVWrite{{Key: e.Key, Val: v}})
	d.mu.Unlock()
	d.post("put", e.Key)
	if f == FaultErrApplied {
		return ErrInjected
	}
	return nil
}

func (d *Disk) Get(ctx context.Context, key string) (*physical.Entry, error) {
	f, _ := d.gate(ctx, "get", key, true)
	if f == FaultErrNA || f == FaultErrApplied {
		return nil, ErrInjected
	}
	if err := ctx.Err(); err != nil {
		return nil, err
	}
	d.mu.Lock()
	d.Reads++
	v, ok := d.kv.Get(key)
	var out *physical.Entry
	if ok {
		out = &physical.Entry{Key: key, Value: append([]byte{}, v...)}
	}
	d.mu.Unlock()
	d.post("get", key)
	return out, nil
}

func (d *Disk) Delete(ctx context.Context, key string) error {
	f, _ := d.gate(ctx, "del", key, true)
	if f == FaultErrNA {
		return ErrInjected
	}
	if err := ctx.Err(); err != nil {
		return err
	}
	d.mu.Lock()
	d.appendMut(ctx, []KVWrite{{Key: key}})
	d.mu.Unlock()
	d.post("del", key)
	if f == FaultErrApplied {
		return ErrInjected
	}
	return nil
}

func (d *Disk) List(ctx context.Context, prefix string) ([]string, error) {
	f, oi := d.gate(ctx, "list", prefix, true)
	if f == FaultErrNA || f == FaultErrApplied {
		return nil, ErrInjected
	}
	if err := ctx.Err(); err != nil {
		return nil, err
	}
	d.mu.Lock()
	defer d.mu.Unlock()
	d.Reads++
	r := d.kv.List(prefix)
	if oi >= 0 && oi < len(d.Ops) {
		d.Ops[oi].N = len(r)
		d.Ops[oi].Res = r
	}
	return r, nil
}

func (d *Disk) ListPage(ctx context.Context, prefix, after string, limit int) ([]string, error) {
	f, oi := d.gate(ctx, "page", prefix+"|"+after+"|"+strconv.Itoa(limit), true)
	if f == FaultErrNA || f == FaultErrApplied {
		return nil, ErrInjected
	}
	if err := ctx.Err(); err != nil {
		return nil, err
	}
	d.mu.Lock()
	defer d.mu.Unlock()
	d.Reads++
	r := d.kv.ListPage(prefix, after, limit)
	if oi >= 0 && oi < len(d.Ops) {
		d.Ops[oi].N = len(r)
		d.Ops[oi].Res = r
	}
	return r, nil
}

// ---- transactions (snapshot + optimistic validation at commit) ----

type txOp struct {
	kind   byte // g l p w d
	key    string
	after  string
	limit  int
	val    []byte
	found  bool
	result []string
}

type DiskTx struct {
	d        *Disk
	mu       sync.Mutex
	snap     *KV
	ops      []txOp
	writable bool
	written  bool
	done     bool
}

func (d *Disk) BeginTx(ctx context.Context) (physical.Transaction, error) {
	return d.begin(ctx, true)
}

func (d *Disk) BeginReadOnlyTx(ctx context.Context) (physical.Transaction, error) {
	return d.begin(ctx, false)
}

func (d *Disk) begin(ctx context.Context, w bool) (physical.Transaction, error) {
	f, _ := d.gate(ctx, "begin", "", true)
	if f != FaultNone {
		return nil, ErrInjected
	}
	d.mu.Lock()
	defer d.mu.Unlock()
	return &DiskTx{d: d, snap: d.kv.Clone(), writable: w}, nil
}

func (t *DiskTx) Put(ctx context.Context, e *physical.Entry) error {
	if !t.writable {
		return physical.ErrTransactionReadOnly
	}
	f, _ := t.d.gate(ctx, "tx-put", e.Key, true)
	t.mu.Lock()
	defer t.mu.Unlock()
	if t.done {
		return physical.ErrTransactionAlreadyCommitted
	}
	if f != FaultNone {
		return ErrInjected
	}
	v := append([]byte{}, e.Value...)
	t.snap.Put(e.Key, v)
	t.ops = append(t.ops, txOp{kind: 'w', key: e.Key, val: v})
	t.written = true
	return nil
}

func (t *DiskTx) Delete(ctx context.Context, key string) error {
	if !t.writable {
		return physical.ErrTransactionReadOnly
	}
	f, _ := t.d.gate(ctx, "tx-del", key, true)
	t.mu.Lock()
	defer t.mu.Unlock()
	if t.done {
		return physical.ErrTransactionAlreadyCommitted
	}
	if f != FaultNone {
		return ErrInjected
	}
	t.snap.Delete(key)
	t.ops = append(t.ops, txOp{kind: 'd', key: key})
	t.written = true
	return nil
}

func (t *DiskTx) Get(ctx context.Context, key string) (*physical.Entry, error) {
	f, _ := t.d.gate(ctx, "tx-get", key, true)
	t.mu.Lock()
	defer t.mu.Unlock()
	if t.done {
		return nil, physical.ErrTransactionAlreadyCommitted
	}
	if f != FaultNone {
		return nil, ErrInjected
	}
	v, ok := t.snap.Get(key)
	t.ops = append(t.ops, txOp{kind: 'g', key: key, val: v, found: ok})
	if !ok {
		return nil, nil
	}
	return &physical.Entry{Key: key, Value: append([]byte{}, v...)}, nil
}

func (t *DiskTx) List(ctx context.Context, prefix string) ([]string, error) {
	f, oi := t.d.gate(ctx, "tx-list", prefix, true)
	t.mu.Lock()
	defer t.mu.Unlock()
	if t.done {
		return nil, physical.ErrTransactionAlreadyCommitted
	}
	if f != FaultNone {
		return nil, ErrInjected
	}
	r := t.snap.List(prefix)
	t.d.setN(oi, r)
	t.ops = append(t.ops, txOp{kind: 'l', key: prefix, result: r})
	return r, nil
}

func (t *DiskTx) ListPage(ctx context.Context, prefix, after string, limit int) ([]string, error) {
	f, oi := t.d.gate(ctx, "tx-page", prefix+"|"+after+"|"+strconv.Itoa(limit), true)
	t.mu.Lock()
	defer t.mu.Unlock()
	if t.done {
		return nil, physical.ErrTransactionAlreadyCommitted
	}
	if f != FaultNone {
		return nil, ErrInjected
	}
	r := t.snap.ListPage(prefix, after, limit)
	t.d.setN(oi, r)
	t.ops = append(t.ops, txOp{kind: 'p', key: prefix, after: after, limit: limit, result: r})
	return r, nil
}

func eqStrings(a, b []string) bool {
	if len(a) != len(b) {
		return false
	}
	for i := range a {
		if a[i] != b[i] {
			return false
		}
	}
	return true
}

func (t *DiskTx) Commit(ctx context.Context) error {
	f, _ := t.d.gate(ctx, "commit", "", t.written)
	t.mu.Lock()
	defer t.mu.Unlock()
	if t.done {
		return physical.ErrTransactionAlreadyCommitted
	}
	t.done = true
	if !t.writable || !t.written {
		return nil
	}
	if f == FaultErrNA {
		return fmt.Errorf("%w: %w", ErrInjected, physical.ErrTransactionCommitFailure)
	}
	d := t.d
	d.mu.Lock()
	defer d.mu.Unlock()
	// replay the operation log on a copy of the current state: every read
	// must observe what it observed in the transaction.
	cur := d.kv.Clone()
	var ws []KVWrite
	for i, op := range t.ops {
		switch op.kind {
		case 'g':
			v, ok := cur.Get(op.key)
			if ok != op.found || string(v) != string(op.val) {
				return fmt.Errorf("simdisk: [%d] read of %q changed: %w", i, op.key, physical.ErrTransactionCommitFailure)
			}
		case 'l':
			if !eqStrings(cur.List(op.key), op.result) {
				return fmt.Errorf("simdisk: [%d] list of %q changed: %w", i, op.key, physical.ErrTransactionCommitFailure)
			}
		case 'p':
			if !eqStrings(cur.ListPage(op.key, op.after, op.limit), op.result) {
				return fmt.Errorf("simdisk: [%d] page of %q changed: %w", i, op.key, physical.ErrTransactionCommitFailure)
			}
		case 'w':
			cur.Put(op.key, op.val)
			ws = append(ws, KVWrite{Key: op.key, Val: op.val})
		case 'd':
			cur.Delete(op.key)
			ws = append(ws, KVWrite{Key: op.key})
		}
	}
	d.appendMut(ctx, ws)
	if f == FaultErrApplied {
		return ErrInjected
	}
	return nil
}

func (t *DiskTx) Rollback(ctx context.Context) error {
	t.mu.Lock()
	defer t.mu.Unlock()
	if t.done {
		return physical.ErrTransactionAlreadyCommitted
	}
	t.done = true
	return nil
}

// ---- crash model ----

// StateAt materialises the durable state after the first k mutations.
func (d *Disk) StateAt(k int) *KV {
	d.mu.Lock()
	defer d.mu.Unlock()
	s := d.base.Clone()
	for i := 0; i < k && i < len(d.Log); i++ {
		for _, w := range d.Log[i].Writes {
			if w.Val == nil {
				s.Delete(w.Key)
			} else {
				s.Put(w.Key, w.Val)
			}
		}
	}
	return s
}

// ForkAt returns a new, independent disk holding exactly the durable prefix
// of k mutations ("the machine died after the k-th acknowledged write").
func (d *Disk) ForkAt(k int, s *Sim) *Disk {
	st := d.StateAt(k)
	return &Disk{kv: st, base: st.Clone(), sim: s}
}

// Fork copies the current state.
func (d *Disk) Fork(s *Sim) *Disk {
	d.mu.Lock()
	n := len(d.Log)
	d.mu.Unlock()
	return d.ForkAt(n, s)
}

func (d *Disk) LogLen() int {
	d.mu.Lock()
	defer d.mu.Unlock()
	return len(d.Log)
}

// Raw gives direct (ungated) access for oracles and fault injection at rest.
func (d *Disk) Raw() *KV { return d.kv }

func (d *Disk) RawGet(key string) ([]byte, bool) {
	d.mu.Lock()
	defer d.mu.Unlock()
	return d.kv.Get(key)
}

func (d *Disk) RawPut(key string, v []byte) {
	d.mu.Lock()
	defer d.mu.Unlock()
	d.kv.Put(key, v)
}

func (d *Disk) RawKeys(prefix string) []string {
	d.mu.Lock()
	defer d.mu.Unlock()
	return d.kv.Under(prefix)
}

// KeyHistory returns the sequence of durable mutations of one key as
// "put:<task>" / "del:<task>" entries.
func (d *Disk) KeyHistory(key string) []string {
	d.mu.Lock()
	defer d.mu.Unlock()
	var out []string
	for _, m := range d.Log {
		for _, w := range m.Writes {
			if w.Key == key {
				if w.Val == nil {
					out = append(out, "del:"+m.Task)
				} else {
					out = append(out, "put:"+m.Task)
				}
			}
		}
	}
	return out
}

// KeysWithPrefixHistory returns the keys under prefix that were ever written.
func (d *Disk) EverWritten(prefix string) []string {
	d.mu.Lock()
	defer d.mu.Unlock()
	seen := map[string]bool{}
	var out []string
	for _, m := range d.Log {
		for _, w := range m.Writes {
			if len(w.Key) >= len(prefix) && w.Key[:len(prefix)] == prefix && !seen[w.Key] {
				seen[w.Key] = true
				out = append(out, w.Key)
			}
		}
	}
	return out
}

// FirstPutSeq / LastDelSeq return the log sequence numbers (1-based) of the
// first put / last delete of a key (0: none).
func (d *Disk) FirstPutSeq(key string) int {
	d.mu.Lock()
	defer d.mu.Unlock()
	for _, m := range d.Log {
		for _, w := range m.Writes {
			if w.Key == key && w.Val != nil {
				return m.Seq
			}
		}
	}
	return 0
}

func (d *Disk) LastDelSeq(prefix string) int {
	d.mu.Lock()
	defer d.mu.Unlock()
	last := 0
	for _, m := range d.Log {
		for _, w := range m.Writes {
			if w.Val == nil && len(w.Key) >= len(prefix) && w.Key[:len(prefix)] == prefix {
				last = m.Seq
			}
		}
	}
	return last
}

// FirstPutStep returns the scheduler step of the first put of key (-1: none).
func (d *Disk) FirstPutStep(key string) int {
	d.mu.Lock()
	defer d.mu.Unlock()
	for _, m := range d.Log {
		for _, w := range m.Writes {
			if w.Key == key && w.Val != nil {
				return m.Step
			}
		}
	}
	return -1
}

// LastOpStep returns the scheduler step of the last recorded operation `op`
// whose key has the given prefix (-1: none; needs RecordOps).
func (d *Disk) LastOpStep(op, prefix string) int {
	d.mu.Lock()
	defer d.mu.Unlock()
	last := -1
	for _, o := range d.Ops {
		if o.Op == op && strings.HasPrefix(o.Key, prefix) {
			last = o.Step
		}
	}
	return last
}

// LastPutStep returns the scheduler step of the last put of key (-1: none).
func (d *Disk) LastPutStep(key string) int {
	d.mu.Lock()
	defer d.mu.Unlock()
	last := -1
	for _, m := range d.Log {
		for _, w := range m.Writes {
			if w.Key == key && w.Val != nil {
				last = m.Step
			}
		}
	}
	return last
}

// OpSteps returns the scheduler steps of all recorded operations `op` on exactly `key`.
func (d *Disk) OpSteps(op, key string) []int {
	d.mu.Lock()
	defer d.mu.Unlock()
	var out []int
	for _, o := range d.Ops {
		if o.Op == op && o.Key == key {
			out = append(out, o.Step)
		}
	}
	return out
}
