package verifsim

import (
	"bytes"
	"context"
	"crypto/aes"
	"crypto/cipher"
	"crypto/ecdsa"
	"crypto/elliptic"
	crand "crypto/rand"
	"crypto/x509"
	"crypto/x509/pkix"
	"encoding/base64"
	"encoding/binary"
	"encoding/hex"
	"encoding/pem"
	"fmt"
	"github.com/ProtonMail/go-crypto/openpgp"
	"github.com/ProtonMail/go-crypto/openpgp/packet"
	"github.com/openbao/openbao/v2/internal/helper/namespace"
	"math/big"
	"regexp"
	"strings"
	"sync"
	"time"

	"github.com/openbao/openbao/sdk/v2/logical"
	"github.com/openbao/openbao/v2/internal/builtin/logical/kv"
	"github.com/openbao/openbao/v2/internal/builtin/logical/pki"
	"github.com/openbao/openbao/v2/internal/builtin/logical/transit"
	"github.com/openbao/openbao/v2/internal/vault"
)

// The C01 monitor watches every physical write of a simulated Core:
//   (a) no registered canary (raw, hex, base64) occurs in any stored value;
//   (b) the value is a barrier record (4-byte term, version byte 1|2, opens
//       under one of the core's barriers with the storage key as AAD), or
//       the key is on the fixed allow-list of bootstrap records.

var c01AllowExact = []string{
	"core/seal-config",
	"core/hsm/barrier-unseal-keys",
	"core/recovery-config",
	"core/recovery-key",
	"core/unseal-keys-backup",
	"core/recovery-keys-backup",
	"core/lock",
	"core/raft/tls", // raft bootstrap data
	// not in the property's list but documented behaviour: ui.go keeps the
	// operator-set UI response headers readable while sealed (no secret, no
	// client data); allow-listed by exact key, the canary rule still applies
	"sys/uiconfig_plaintext",
}

var nsPrefixRe = regexp.MustCompile(`^namespaces/[0-9a-f-]{36}/`)

type Monitor struct {
	mu       sync.Mutex
	sim      *Sim
	core     func() *vault.Core
	canaries [][]byte
	Checked  int
	Direct   map[string]int // allow-listed direct writes seen
	pending  []monRec       // records written while no barrier could open them (init, sealed)
	lastErr  string
}

type monRec struct {
	key string
	val []byte
}

func NewMonitor(s *Sim) *Monitor { return &Monitor{sim: s, Direct: map[string]int{}} }

func (m *Monitor) AddCanary(c string) {
	m.mu.Lock()
	defer m.mu.Unlock()
	b := []byte(c)
	m.canaries = append(m.canaries, b, []byte(hex.EncodeToString(b)), []byte(base64.StdEncoding.EncodeToString(b)), []byte(base64.RawURLEncoding.EncodeToString(b)))
}

func (m *Monitor) allowed(key string) bool {
	k := nsPrefixRe.ReplaceAllString(key, "")
	for _, a := range c01AllowExact {
		if k == a {
			return true
		}
	}
	return false
}

func (m *Monitor) OnWrite(key string, val []byte, del bool) {
	if del {
		return
	}
	m.mu.Lock()
	defer m.mu.Unlock()
	m.Checked++
	for _, c := range m.canaries {
		if bytes.Contains(val, c) {
			m.sim.Violate("C01", "plaintext-on-disk", map[string]any{"key_class": keyClass(nsPrefixRe.ReplaceAllString(key, ""))},
				"a client-supplied secret appears in clear in the bytes stored under %q", key)
			return
		}
	}
	if m.allowed(key) {
		m.Direct[nsPrefixRe.ReplaceAllString(key, "")]++
		return
	}
	// The write may happen with barrier locks held (e.g. Rotate persisting
	// the keyring), so the record is only queued here; Settle, called by the
	// workload between operations, checks that it opens under its key.
	m.pending = append(m.pending, monRec{key, append([]byte{}, val...)})

}

// opens reports whether the value is a barrier record that authenticates under `key`.
func (m *Monitor) opens(key string, val []byte) bool {
	if len(val) < 5 || (val[4] != 1 && val[4] != 2) {
		return false
	}
	_ = binary.BigEndian.Uint32(val[:4])
	c := m.core()
	if c == nil {
		return false
	}
	for _, b := range vault.VerifAllBarriers(c) {
		if b == nil || b.Sealed() {
			continue
		}
		if _, err := b.Decrypt(context.Background(), key, val); err == nil {
			return true
		} else {
			m.lastErr = fmt.Sprintf("%v (sealed=%v)", err, b.Sealed())
		}
	}
	return false
}

// Settle re-checks the records that could not be opened when they were written.
func (m *Monitor) Settle() {
	m.mu.Lock()
	defer m.mu.Unlock()
	var still []monRec
	for _, r := range m.pending {
		if !m.opens(r.key, r.val) {
			still = append(still, r)
		}
	}
	m.pending = nil
	for _, r := range still {
		if len(r.val) >= 5 && (r.val[4] == 1 || r.val[4] == 2) && isKeyringish(r.key) {
			// keyring records are sealed under the root key, old root-key
			// records under a rotated-out term: format-checked, and they must
			// not open under a key everybody knows (an all-zero key is what a
			// wiped-too-early key buffer encrypts with)
			if opensUnderZeroKey(r.key, r.val) {
				m.sim.Violate("C01", "record-sealed-under-known-key", map[string]any{"key": nsPrefixRe.ReplaceAllString(r.key, "")},
					"the record written to %q authenticates under the all-zero AES key: whoever reads the physical store can open it", r.key)
				return
			}
			continue
		}
		m.sim.Violate("C01", "non-ciphertext-write", map[string]any{"key": nsPrefixRe.ReplaceAllString(r.key, "")},
			"a record that is not authenticated ciphertext under its storage key (and not an allow-listed bootstrap record) was written to %q (%d bytes): %x... (last open error: %s)", r.key, len(r.val), r.val[:min(len(r.val), 24)], m.lastErr)
		return
	}
}

// opensUnderZeroKey tries AES-GCM with a 32-byte (and 16-byte) zero key, with
// and without the storage key as associated data.
func opensUnderZeroKey(key string, val []byte) bool {
	if len(val) < 5+12+16 {
		return false
	}
	for _, klen := range []int{32, 16} {
		blk, err := aes.NewCipher(make([]byte, klen))
		if err != nil {
			continue
		}
		gcm, err := cipher.NewGCM(blk)
		if err != nil {
			continue
		}
		nonce, body := val[5:5+gcm.NonceSize()], val[5+gcm.NonceSize():]
		for _, aad := range [][]byte{nil, []byte(key), []byte(nsPrefixRe.ReplaceAllString(key, ""))} {
			if _, err := gcm.Open(nil, nonce, body, aad); err == nil {
				return true
			}
		}
	}
	return false
}

func isKeyringish(key string) bool {
	k := nsPrefixRe.ReplaceAllString(key, "")
	return k == "core/keyring" || k == "core/root-key" || k == "core/master" || strings.HasPrefix(k, "core/upgrade/") || k == "core/shamir-kek"
}

// ---- part B scenario: API workload over a whole Core with the monitor on ----

func runC01Monitor(rc *RunCtx) {
	rc.Cfg("mode", "monitor")
	inBubble(rc, func() { c01MonitorBody(rc) })
}

func c01MonitorBody(rc *RunCtx) {
	s, tp := rc.S, rc.S.Tape
	disk := NewDisk(s)
	mon := NewMonitor(s)
	var h *CoreH
	mon.core = func() *vault.Core {
		if h == nil {
			return nil
		}
		return h.Core
	}
	disk.OnWrite = append(disk.OnWrite, mon.OnWrite)
	nc := 0
	canary := func(tag string) string {
		nc++
		c := fmt.Sprintf("CANARY-%s-%d-%d", tag, nc, tp.Pick(1<<20))
		mon.AddCanary(c)
		return c
	}
	rec := NewRecorder(s)
	opts := CoreOpts{
		DisableCache: tp.Pick(2) == 1, Plain: tp.Pick(3) == 2, DisableSSC: tp.Pick(2) == 1, EnableRaw: true,
		Shares:     1 + tp.Pick(3),
		Logical:    map[string]logical.Factory{"kv": kv.Factory, "kv2": kv.VersionedKVFactory, "rec": RecFactory(rec, false), "pki": pki.Factory, "transit": transit.Factory},
		Credential: map[string]logical.Factory{"rec": RecFactory(rec, true)},
	}
	opts.Thresh = 1 + tp.Pick(opts.Shares)
	if opts.Shares > 1 && opts.Thresh < 2 {
		opts.Thresh = 2
	}
	rc.Cfg("cache_off", opts.DisableCache)
	rc.Cfg("plain_disk", opts.Plain)
	rc.Cfg("shares", fmt.Sprintf("%d/%d", opts.Thresh, opts.Shares))
	// a third of the runs use an auto-unseal style seal: recovery config / recovery
	// key and the KMS-wrapped stored keys are the direct (bootstrap) writes then
	if tp.Pick(3) == 2 {
		opts.AutoSealSecret = []byte(fmt.Sprintf("monitor-kms-%d", tp.Pick(1000)))
		rc.Cfg("seal", "auto")
	}
	var err error
	// BootCore sets h only at the end; the monitor needs the core during init
	h, err = BootCoreWith(disk, opts, func(x *CoreH) { h = x })
	if err != nil {
		panic(err)
	}
	defer h.Shutdown()
	mon.Settle()
	if s.Viol != nil {
		return
	}
	must(h.Mount("secret", "kv", nil))
	must(h.Mount("v2", "kv2", nil))
	must(h.Mount("rec", "rec", nil))
	must(h.EnableAuth("rec", "rec"))
	must(h.Mount("pki", "pki", nil))
	must(h.Mount("transit", "transit", nil))
	var steps []string
	do := func(desc string, r Req) *logical.Response {
		steps = append(steps, desc)
		s.Note("%s", desc)
		resp, err := h.Do("c01", r)
		if err != nil || (resp != nil && resp.IsError()) {
			s.Probe("op_refused:" + desc)
		} else {
			s.Probe("op_ok:" + desc)
		}
		return resp
	}
	n := 8 + tp.Pick(12)
	var tokens []string
	rekeyed := false
	for i := 0; i < n && s.Viol == nil; i++ {
		switch tp.Pick(17) {
		case 16: // rekey with PGP-encrypted shares and a stored backup: the backup record
			// (a direct, allow-listed write) must hold the PGP messages only. With an
			// auto-unseal style seal it is the recovery key that is rekeyed.
			if rekeyed || opts.Shares > 3 {
				continue
			}
			rekeyed = true
			recovery := len(opts.AutoSealSecret) > 0
			n2 := 1 + tp.Pick(3)
			// (key pairs made here, on the simulated clock: the repository's test
			// keys date from 2015 and are "not yet valid" in the bubble's year 2000)
			var pubs []string
			var ents []*openpgp.Entity
			for j := 0; j < n2; j++ {
				e, err := openpgp.NewEntity(fmt.Sprintf("operator %d", j), "", fmt.Sprintf("op%d@example.com", j), &packet.Config{Algorithm: packet.PubKeyAlgoEdDSA})
				if err != nil {
					panic(err)
				}
				var pb bytes.Buffer
				if err := e.Serialize(&pb); err != nil {
					panic(err)
				}
				ents = append(ents, e)
				pubs = append(pubs, base64.StdEncoding.EncodeToString(pb.Bytes()))
			}
			t2 := 1
			if n2 > 1 {
				t2 = 2 + tp.Pick(n2-1)
			}
			steps = append(steps, fmt.Sprintf("rekey (recovery=%v) to %d/%d with pgp keys and backup", recovery, t2, n2))
			if cerr := h.Core.RekeyInit(&vault.SealConfig{SecretShares: n2, SecretThreshold: t2, PGPKeys: pubs, Backup: true}, recovery); cerr != nil {
				s.Probe("pgp_rekey_refused")
				continue
			}
			conf, cerr := h.Core.RekeyConfig(recovery)
			if cerr != nil || conf == nil {
				continue
			}
			var res *vault.RekeyResult
			for j := 0; j < opts.Thresh && j < len(h.Keys); j++ {
				r, cerr := h.Core.RekeyUpdate(namespace.RootContext(context.Background()), append([]byte{}, h.Keys[j]...), conf.Nonce, recovery)
				if cerr != nil {
					e := cerr.Error()
					if len(e) > 80 {
						e = e[:80]
					}
					s.Probe("DBG " + e)
					break
				}
				res = r
			}
			mon.Settle()
			if res == nil || len(res.SecretShares) != n2 {
				s.Probe("pgp_rekey_not_completed")
				continue
			}
			var newKeys [][]byte
			for j, enc := range res.SecretShares {
				md, err := openpgp.ReadMessage(bytes.NewReader(enc), openpgp.EntityList{ents[j]}, nil, nil)
				if err != nil {
					s.Probe("pgp_share_not_decryptable")
					continue
				}
				var pt bytes.Buffer
				pt.ReadFrom(md.UnverifiedBody)
				// (what was encrypted is the hex text of the share)
				mon.AddCanary(pt.String())
				if raw, err := hex.DecodeString(pt.String()); err == nil {
					mon.AddCanary(string(raw))
					newKeys = append(newKeys, raw)
				}
			}
			if len(newKeys) == n2 {
				h.Keys, h.Opts.Thresh, opts.Thresh, opts.Shares = newKeys, t2, t2, n2
				s.Probe("pgp_rekey_with_backup")
			}
		case 12: // root key rotation: stored keys + keyring are rewritten
			do("rotate root", Req{Op: logical.UpdateOperation, Path: "sys/rotate/root", Token: h.Root})
		case 13: // a CA whose private key is known to the monitor is imported into the pki engine
			key, _ := ecdsa.GenerateKey(elliptic.P256(), crand.Reader)
			der, _ := x509.MarshalECPrivateKey(key)
			keyPEM := string(pem.EncodeToMemory(&pem.Block{Type: "EC PRIVATE KEY", Bytes: der}))
			tmpl := &x509.Certificate{SerialNumber: big.NewInt(int64(1000 + i)), Subject: pkix.Name{CommonName: fmt.Sprintf("monitor root %d", i)}, NotBefore: time.Now().Add(-time.Hour), NotAfter: time.Now().Add(1000 * time.Hour),
				IsCA: true, BasicConstraintsValid: true, KeyUsage: x509.KeyUsageCertSign | x509.KeyUsageCRLSign}
			cder, _ := x509.CreateCertificate(crand.Reader, tmpl, tmpl, &key.PublicKey, key)
			certPEM := string(pem.EncodeToMemory(&pem.Block{Type: "CERTIFICATE", Bytes: cder}))
			// the key must not reach the disk in DER or PEM form: register both
			mon.AddCanary(string(der[7:39])) // the 32-byte private scalar
			for _, line := range strings.Split(keyPEM, "\n") {
				if len(line) == 64 {
					mon.AddCanary(line)
				}
			}
			do("pki import ca", Req{Op: logical.UpdateOperation, Path: "pki/config/ca", Token: h.Root, Data: map[string]any{"pem_bundle": keyPEM + certPEM}})
			do("pki issue", Req{Op: logical.UpdateOperation, Path: "pki/roles/r", Token: h.Root, Data: map[string]any{"allow_any_name": true, "key_type": "ec", "key_bits": 256, "ttl": "1h"}})
			if resp := do("pki issue", Req{Op: logical.UpdateOperation, Path: "pki/issue/r", Token: h.Root, Data: map[string]any{"common_name": "leaf.example.com"}}); resp != nil && resp.Data != nil {
				if pk, _ := resp.Data["private_key"].(string); pk != "" {
					for _, line := range strings.Split(pk, "\n") {
						if len(line) == 64 {
							mon.AddCanary(line) // leaf keys are not stored (no_store off stores the CERT only)
						}
					}
				}
			}
		case 14: // transit: exported key material must match nothing on disk
			name := fmt.Sprintf("t%d", tp.Pick(2))
			do("transit create", Req{Op: logical.UpdateOperation, Path: "transit/keys/" + name, Token: h.Root, Data: map[string]any{"type": "aes256-gcm96", "exportable": true}})
			do("transit rotate", Req{Op: logical.UpdateOperation, Path: "transit/keys/" + name + "/rotate", Token: h.Root})
			if resp := do("transit export", Req{Op: logical.ReadOperation, Path: "transit/export/encryption-key/" + name, Token: h.Root}); resp != nil && resp.Data != nil {
				if ks, ok := resp.Data["keys"].(map[string]string); ok {
					for _, b64k := range ks {
						if raw, err := base64.StdEncoding.DecodeString(b64k); err == nil && len(raw) >= 16 {
							mon.AddCanary(string(raw))
						}
					}
				}
			}
			do("transit encrypt", Req{Op: logical.UpdateOperation, Path: "transit/encrypt/" + name, Token: h.Root, Data: map[string]any{"plaintext": base64.StdEncoding.EncodeToString([]byte(canary("transit-pt")))}})
		case 15: // a namespace with its own seal: its seal config / stored keys are bootstrap records, its data is not
			nsn := fmt.Sprintf("sealed%d", tp.Pick(2))
			resp := do("sealable namespace", Req{Op: logical.UpdateOperation, Path: "sys/namespaces/" + nsn, Token: h.Root, Data: map[string]any{"seal": `seal "shamir" { shares = 1  threshold = 1 }`}})
			var nskey string
			if resp != nil && resp.Data != nil {
				switch ks := resp.Data["key_shares"].(type) {
				case []string:
					if len(ks) > 0 {
						nskey = ks[0]
					}
				case []any:
					if len(ks) > 0 {
						nskey = fmt.Sprint(ks[0])
					}
				}
			}
			if nskey != "" {
				do("ns unseal", Req{Op: logical.UpdateOperation, Path: "sys/namespaces/" + nsn + "/unseal", Token: h.Root, Data: map[string]any{"key": nskey}})
			}
			do("sealed-ns mount", Req{Op: logical.UpdateOperation, Path: "sys/mounts/skv", Token: h.Root, NS: nsn + "/", Data: map[string]any{"type": "kv"}})
			do("sealed-ns kv write", Req{Op: logical.UpdateOperation, Path: "skv/x", Token: h.Root, NS: nsn + "/", Data: map[string]any{"v": canary("sealedns")}})
			do("sealed-ns rotate", Req{Op: logical.UpdateOperation, Path: "sys/rotate", Token: h.Root, NS: nsn + "/"})
		case 0:
			do("kv write", Req{Op: logical.UpdateOperation, Path: fmt.Sprintf("secret/a%d", i), Token: h.Root, Data: map[string]any{"password": canary("kv")}})
		case 1:
			do("kv2 write", Req{Op: logical.UpdateOperation, Path: fmt.Sprintf("v2/data/a%d", tp.Pick(3)), Token: h.Root, Data: map[string]any{"data": map[string]any{"k": canary("kv2")}}})
		case 2:
			do("policy write", Req{Op: logical.UpdateOperation, Path: fmt.Sprintf("sys/policies/acl/p%d", i), Token: h.Root,
				Data: map[string]any{"policy": fmt.Sprintf("# %s\npath \"secret/*\" { capabilities = [\"read\"] }", canary("policy"))}})
		case 3:
			resp := do("token create", Req{Op: logical.UpdateOperation, Path: "auth/token/create", Token: h.Root,
				Data: map[string]any{"policies": []string{"default"}, "meta": map[string]string{"note": canary("tokmeta")}, "ttl": "1h"}})
			if resp != nil && resp.Auth != nil {
				tokens = append(tokens, resp.Auth.ClientToken)
				mon.AddCanary(resp.Auth.ClientToken)
			}
		case 4:
			if len(tokens) > 0 {
				do("cubbyhole write", Req{Op: logical.UpdateOperation, Path: "cubbyhole/mine", Token: tokens[tp.Pick(len(tokens))], Data: map[string]any{"v": canary("cubby")}})
			}
		case 5:
			resp := do("wrapped read", Req{Op: logical.ReadOperation, Path: "secret/a0", Token: h.Root, WrapTTL: time.Minute})
			if resp != nil && resp.WrapInfo != nil {
				mon.AddCanary(resp.WrapInfo.Token)
			}
		case 6:
			do("login", Req{Op: logical.UpdateOperation, Path: "auth/rec/login", Data: map[string]any{"policies": "default", "ttl": 600, "alias": canary("alias")}})
		case 7:
			do("leased creds", Req{Op: logical.ReadOperation, Path: "rec/creds/x", Token: h.Root, Data: map[string]any{"canary": canary("lease")}})
			do("leased creds", Req{Op: logical.UpdateOperation, Path: "rec/creds/x", Token: h.Root, Data: map[string]any{"canary": canary("lease"), "ttl": 300}})
		case 8:
			do("rotate", Req{Op: logical.UpdateOperation, Path: "sys/rotate", Token: h.Root})
		case 9:
			do("namespace create", Req{Op: logical.UpdateOperation, Path: fmt.Sprintf("sys/namespaces/ns%d", tp.Pick(2)), Token: h.Root, Data: map[string]any{"custom_metadata": map[string]string{"owner": canary("nsmeta")}}})
			do("ns mount", Req{Op: logical.UpdateOperation, Path: "sys/mounts/nskv", Token: h.Root, NS: fmt.Sprintf("ns%d/", tp.Pick(2)), Data: map[string]any{"type": "kv"}})
			do("ns kv write", Req{Op: logical.UpdateOperation, Path: "nskv/x", Token: h.Root, NS: fmt.Sprintf("ns%d/", tp.Pick(2)), Data: map[string]any{"v": canary("nskv")}})
		case 10:
			do("entity create", Req{Op: logical.UpdateOperation, Path: "identity/entity", Token: h.Root, Data: map[string]any{"name": fmt.Sprintf("e%d", i), "metadata": map[string]string{"note": canary("entity")}}})
		case 11:
			do("ui headers", Req{Op: logical.UpdateOperation, Path: "sys/config/ui/headers/X-Verif", Token: h.Root, Data: map[string]any{"values": []string{"v" + fmt.Sprint(i)}}})
			do("raw write", Req{Op: logical.UpdateOperation, Path: "sys/raw/logical/rawtest/x", Token: h.Root, Data: map[string]any{"value": canary("raw")}})
		}
		if tp.Pick(6) == 0 {
			s.Advance(time.Duration(1+tp.Pick(600)) * time.Second)
		}
		mon.Settle()
	}
	if s.Viol != nil {
		return
	}
	// seal / unseal cycle: keyring persisted again, expiration restore etc.
	if tp.Pick(2) == 0 {
		steps = append(steps, "seal+unseal")
		if err := h.Core.Seal(h.Root); err == nil {
			if err := h.Unseal(); err != nil {
				// availability after seal / unseal is C10's clause; here the run just ends
				s.Probe("unseal_failed_after_workload")
				s.Trunc = true
				return
			}
		}
		mon.Settle()
	}
	// the complete disk at rest holds no canary either
	for _, k := range disk.RawKeys("") {
		v, _ := disk.RawGet(k)
		mon.mu.Lock()
		for _, c := range mon.canaries {
			if bytes.Contains(v, c) {
				s.Violate("C01", "plaintext-on-disk", map[string]any{"key_class": keyClass(k)}, "canary found at rest under %q", k)
			}
		}
		mon.mu.Unlock()
	}
	rc.Res.Evals = mon.Checked
	s.Steps = mon.Checked
	s.ProbeN("monitored_writes", mon.Checked)
	for k, v := range mon.Direct {
		s.ProbeN("direct_write:"+k, v)
	}
	rc.Res.Sample = map[string]any{"mode": "monitor", "steps": steps, "writes_checked": mon.Checked, "direct_writes": mon.Direct}
	rc.Res.StateSig = "monitor/" + strings.Join(steps, ",")
}
