package verifsim

import (
	"bytes"
	"errors"
	"fmt"
	"os"
	"strings"

	"github.com/openbao/openbao/sdk/v2/physical"
)

// C08 — storage transactions are serializable and atomic.
//
// Up to 4 concurrent transactions (read-write and read-only) plus plain
// writers over <= 6 keys in a two-level hierarchy, interleaved at operation
// granularity by the tape, on every transactional stack (inmem, simdisk,
// with cache / key-encoding / barrier / views; the Raft stacks live in
// c08_raft.go). Every written value is unique.
//
// Oracle: a serial key/value model advanced in commit order. When a
// transaction with writes commits successfully, its whole operation log is
// replayed on the model state at that instant: every value and listing it
// observed must be what the replay yields (else stale-read-committed) and
// its writes are applied together. A transaction without writes must be
// consistent with one model version between its begin and its end. A failed
// commit must be a commit-conflict error and leaves no trace. Spurious
// conflicts are legal, but a commit with no write activity since its begin
// must succeed. Own writes are visible inside; read-only transactions refuse
// writes; finished transactions refuse use.

func init() {
	register(&Scenario{Prop: "C08", Name: "txn-serializable", NoBubble: true, Run: runC08})
}

var c08Keys = []string{"a", "b", "d/x", "d/y", "e/x", "d/z/w"}
var c08Prefixes = []string{"", "d/", "e/", "d/z/"}

type obs struct {
	kind   byte // g l p w d
	key    string
	after  string
	limit  int
	val    []byte
	found  bool
	result []string
}

func (o obs) String() string {
	switch o.kind {
	case 'g':
		if !o.found {
			return fmt.Sprintf("get %s=nil", o.key)
		}
		return fmt.Sprintf("get %s=%s", o.key, o.val)
	case 'l':
		return fmt.Sprintf("list %q=%v", o.key, o.result)
	case 'p':
		return fmt.Sprintf("page %q after=%q limit=%d=%v", o.key, o.after, o.limit, o.result)
	case 'w':
		return fmt.Sprintf("put %s=%s", o.key, o.val)
	case 'd':
		return fmt.Sprintf("del %s", o.key)
	}
	return "?"
}

type c08Txn struct {
	id       int
	tx       txAPI
	ro       bool
	ops      []obs
	beginVer int
	writes   int
	own      map[string][]byte // own writes (nil value: deleted)
}

// replay the observation log of a transaction on state m; returns the first
// mismatching observation or nil.
func replayObs(ops []obs, m *KV) (*obs, string) {
	for i := range ops {
		o := &ops[i]
		switch o.kind {
		case 'g':
			v, ok := m.Get(o.key)
			if ok != o.found || !bytes.Equal(v, o.val) {
				return o, fmt.Sprintf("serial value (%q,%v)", v, ok)
			}
		case 'l':
			l := m.List(o.key)
			if !eqStrings(l, sortedCopy(o.result)) {
				return o, fmt.Sprintf("serial listing %v", l)
			}
		case 'p':
			l := m.ListPage(o.key, o.after, o.limit)
			if !eqStrings(l, o.result) {
				return o, fmt.Sprintf("serial page %v", l)
			}
		case 'w':
			m.Put(o.key, o.val)
		case 'd':
			m.Delete(o.key)
		}
	}
	return nil, ""
}

func runC08(rc *RunCtx) {
	s, tp := rc.S, rc.S.Tape
	// one run in 24 uses the real single-node Raft backend (about 2000x the
	// cost of an in-memory run, so this is roughly half of the time budget)
	if tp.Pick(24) == 23 {
		rc.Cfg("stack", "raft")
		inBubble(rc, func() {
			h, err := BootRaft(s)
			if err != nil {
				panic(err)
			}
			defer h.Close()
			rr := RunRaftWorkload(rc, h, "C08")
			CheckRaftSerial(rc, h, rr, "C08")
			rc.Res.Sample = map[string]any{"stack": "raft", "history": tail(rr.Hist, 30)}
			rc.Res.StateSig = fmt.Sprintf("raft/p%d/lag%d", len(rr.Proposals), rr.MaxLag)
		})
		return
	}
	// one run in 16: real concurrency below operation granularity - tasks
	// parked inside a cache read or a commit while another one commits
	if tp.Pick(16) == 15 {
		inBubble(rc, func() { runC08CacheConcurrent(rc) })
		return
	}
	o := StackOpts{Bottom: []string{"inmem", "simdisk"}[tp.Pick(2)]}
	o.Encoding = tp.Pick(2) == 1
	if tp.Pick(2) == 1 {
		o.CacheSize = []int{4, 8, 64, 200, 1024}[tp.Pick(5)]
	}
	// (physical.View is not transactional: not part of these stacks)
	if tp.Pick(2) == 1 {
		o.Barrier = true
		o.Views = []string{"logical/"}
		if tp.Pick(2) == 1 {
			o.Views = append(o.Views, "m1/")
		}
	}
	rc.Cfg("stack", o.String())
	st, err := BuildStack(s, o)
	if err != nil {
		panic(err)
	}
	if st.Begin == nil {
		panic("stack not transactional: " + st.Name)
	}
	c08Drive(rc, st, 0)
	_ = os.Remove
}

// c08Drive runs the interleaved workload on a transactional stack.
// step(), if non-nil, is called between operations (Raft: lets the
// scheduler release FSM applies).
func c08Drive(rc *RunCtx, st *Stack, extra int) {
	s, tp := rc.S, rc.S.Tape
	model := NewKV()
	versions := []*KV{model.Clone()} // versions[i] = state after i write events
	lastWriteVer := func() int { return len(versions) - 1 }
	var hist []string
	note := func(f string, a ...any) {
		l := fmt.Sprintf(f, a...)
		hist = append(hist, l)
		s.Note("%s", l)
	}
	viol := func(class string, sig map[string]any, f string, a ...any) {
		if sig == nil {
			sig = map[string]any{}
		}
		sig["stack"] = st.Name
		sig["cache_layer"] = st.Cache != nil
		s.Violate("C08", class, sig, "stack %s: %s; history: %v", st.Name, fmt.Sprintf(f, a...), tail(hist, 30))
	}
	nval := 0
	uniq := func(k string) []byte {
		nval++
		return []byte(fmt.Sprintf("v%d", nval))
	}
	maxTx := 2 + tp.Pick(3)
	nOps := 12 + tp.Pick(20)
	if rc.Thorough() {
		nOps = 12 + tp.Pick(50)
	}
	var open []*c08Txn
	txSeq := 0
	conflicts, commits := 0, 0

	finish := func(t *c08Txn, commit bool) bool {
		// remove from open
		for i, x := range open {
			if x == t {
				open = append(open[:i], open[i+1:]...)
				break
			}
		}
		if !commit {
			note("T%d rollback", t.id)
			if err := t.tx.Rollback(); err != nil {
				viol("rollback-failed", nil, "T%d rollback: %v", t.id, err)
				return false
			}
		} else {
			err := t.tx.Commit()
			note("T%d commit -> %v", t.id, err == nil)
			if err != nil {
				if !errors.Is(err, physical.ErrTransactionCommitFailure) {
					viol("commit-error-not-conflict-class", nil, "T%d commit failed with a non-conflict error: %v", t.id, err)
					return false
				}
				conflicts++
				if t.beginVer == lastWriteVer() {
					viol("spurious-conflict-without-concurrency", nil, "T%d commit failed although nothing was written since its begin: %v", t.id, err)
					return false
				}
			} else {
				commits++
				if t.writes > 0 {
					next := model.Clone()
					if bad, want := replayObs(t.ops, next); bad != nil {
						viol("stale-read-committed", map[string]any{"obs": string(bad.kind)},
							"T%d committed although it observed %s, but in commit order the %s; ops %v", t.id, bad, want, t.ops)
						return false
					}
					model = next
					versions = append(versions, model.Clone())
				} else {
					// read-only / no writes: consistent with ONE version in [begin, now]
					ok := false
					var firstBad string
					for v := t.beginVer; v <= lastWriteVer(); v++ {
						bad, want := replayObs(t.ops, versions[v].Clone())
						if bad == nil {
							ok = true
							break
						}
						if firstBad == "" {
							firstBad = fmt.Sprintf("%s vs %s", bad, want)
						}
					}
					if !ok {
						viol("inconsistent-snapshot-read", nil, "T%d (no writes) observed values consistent with no single state between its begin and end (%s); ops %v", t.id, firstBad, t.ops)
						return false
					}
				}
			}
		}
		// a finished transaction refuses further use
		if err := t.tx.Put("a", []byte("after-finish")); err == nil {
			viol("finished-tx-accepts-write", nil, "T%d accepted a put after it finished", t.id)
			return false
		}
		if _, _, err := t.tx.Get("zz-never-touched"); err == nil {
			viol("finished-tx-serves-read", map[string]any{"touched_key": false}, "T%d served a get after it finished", t.id)
			return false
		}
		for _, o := range t.ops {
			if o.kind == 'g' || o.kind == 'w' {
				if _, _, err := t.tx.Get(o.key); err == nil {
					// soft: does not end the run
					s.ViolateSoft("C08", "finished-tx-serves-read", map[string]any{"touched_key": true, "cache_layer": st.Cache != nil},
						"stack %s: T%d served a get of %q (a key it had read or written) after it finished", st.Name, t.id, o.key)
				}
				break
			}
		}
		return true
	}

	for i := 0; i < nOps+extra && s.Viol == nil; i++ {
		s.Steps++
		r := tp.Pick(10)
		switch {
		case r == 0 && len(open) < maxTx: // begin
			ro := tp.Pick(4) == 3
			tx, err := st.Begin(ro)
			if err != nil {
				viol("begin-failed", nil, "begin: %v", err)
				return
			}
			txSeq++
			t := &c08Txn{id: txSeq, tx: tx, ro: ro, beginVer: lastWriteVer(), own: map[string][]byte{}}
			open = append(open, t)
			note("T%d begin ro=%v", t.id, ro)
		case r == 1 || len(open) == 0: // plain op
			k := c08Keys[tp.Pick(len(c08Keys))]
			switch tp.Pick(4) {
			case 0, 1:
				v := uniq(k)
				note("plain put %s=%s", k, v)
				if err := st.KV.Put(k, v); err != nil {
					viol("plain-put-failed", nil, "put: %v", err)
					return
				}
				model.Put(k, v)
				versions = append(versions, model.Clone())
			case 2:
				note("plain del %s", k)
				if err := st.KV.Delete(k); err != nil {
					viol("plain-delete-failed", nil, "delete: %v", err)
					return
				}
				model.Delete(k)
				versions = append(versions, model.Clone())
			default:
				v, ok, err := st.KV.Get(k)
				mv, mok := model.Get(k)
				note("plain get %s=%s", k, v)
				if err != nil || ok != mok || !bytes.Equal(v, mv) {
					viol("plain-read-mismatch", nil, "plain get %q = (%q,%v,%v), committed state has (%q,%v)", k, v, ok, err, mv, mok)
					return
				}
			}
		case r == 2 && len(open) > 0: // commit / rollback
			t := open[tp.Pick(len(open))]
			if !finish(t, tp.Pick(5) != 4) {
				return
			}
		default: // op inside a transaction
			t := open[tp.Pick(len(open))]
			k := c08Keys[tp.Pick(len(c08Keys))]
			switch tp.Pick(6) {
			case 0, 1: // get
				v, ok, err := t.tx.Get(k)
				if err != nil {
					viol("tx-get-failed", nil, "T%d get %q: %v", t.id, k, err)
					return
				}
				note("T%d get %s=%s", t.id, k, v)
				if own, mine := t.own[k]; mine {
					if (own == nil) != !ok || !bytes.Equal(own, v) {
						viol("own-write-not-visible", nil, "T%d wrote %q=%q earlier but reads (%q,%v)", t.id, k, own, v, ok)
						return
					}
				}
				t.ops = append(t.ops, obs{kind: 'g', key: k, val: v, found: ok})
			case 2: // put
				v := uniq(k)
				err := t.tx.Put(k, v)
				note("T%d put %s=%s -> %v", t.id, k, v, err == nil)
				if t.ro {
					if err == nil {
						viol("readonly-tx-accepted-write", nil, "T%d (read-only) accepted a put", t.id)
						return
					}
					continue
				}
				if err != nil {
					viol("tx-put-failed", nil, "T%d put %q: %v", t.id, k, err)
					return
				}
				t.ops = append(t.ops, obs{kind: 'w', key: k, val: v})
				t.own[k] = v
				t.writes++
			case 3: // delete
				err := t.tx.Delete(k)
				note("T%d del %s -> %v", t.id, k, err == nil)
				if t.ro {
					if err == nil {
						viol("readonly-tx-accepted-write", nil, "T%d (read-only) accepted a delete", t.id)
						return
					}
					continue
				}
				if err != nil {
					viol("tx-delete-failed", nil, "T%d delete %q: %v", t.id, k, err)
					return
				}
				t.ops = append(t.ops, obs{kind: 'd', key: k})
				t.own[k] = nil
				t.writes++
			case 4: // list
				p := c08Prefixes[tp.Pick(len(c08Prefixes))]
				l, err := t.tx.List(p)
				if err != nil {
					viol("tx-list-failed", nil, "T%d list %q: %v", t.id, p, err)
					return
				}
				note("T%d list %q=%v", t.id, p, l)
				// own writes are reflected
				for k, v := range t.own {
					if !strings.HasPrefix(k, p) {
						continue
					}
					rest := k[len(p):]
					entry := rest
					if i := strings.Index(rest, "/"); i >= 0 {
						entry = rest[:i+1]
					}
					present := false
					for _, e := range l {
						if e == entry {
							present = true
						}
					}
					if v != nil && !present {
						viol("own-write-not-visible", nil, "T%d wrote %q but list %q = %v", t.id, k, p, l)
						return
					}
					if v == nil && present && !strings.HasSuffix(entry, "/") {
						viol("own-write-not-visible", nil, "T%d deleted %q but list %q = %v", t.id, k, p, l)
						return
					}
				}
				t.ops = append(t.ops, obs{kind: 'l', key: p, result: l})
			default: // page
				p := c08Prefixes[tp.Pick(len(c08Prefixes))]
				after := []string{"", "a", "d/", "x", "b", "y"}[tp.Pick(6)]
				limit := []int{-1, 1, 2, 10}[tp.Pick(4)]
				l, err := t.tx.ListPage(p, after, limit)
				if err != nil {
					viol("tx-listpage-failed", nil, "T%d listpage: %v", t.id, err)
					return
				}
				note("T%d page %q after=%q limit=%d=%v", t.id, p, after, limit, l)
				t.ops = append(t.ops, obs{kind: 'p', key: p, after: after, limit: limit, result: l})
			}
		}
	}
	// finish everything that is still open
	for len(open) > 0 && s.Viol == nil {
		t := open[0]
		if !finish(t, tp.Pick(4) != 3) {
			return
		}
	}
	if s.Viol != nil {
		return
	}
	// final state equals the serial model
	for _, k := range c08Keys {
		v, ok, err := st.KV.Get(k)
		mv, mok := model.Get(k)
		if err != nil || ok != mok || !bytes.Equal(v, mv) {
			viol("final-state-mismatch", nil, "final get %q = (%q,%v,%v), serial model (%q,%v)", k, v, ok, err, mv, mok)
			return
		}
	}
	s.ProbeN("txn_conflicts", conflicts)
	s.ProbeN("txn_commits", commits)
	rc.Res.Sample = map[string]any{"stack": st.Name, "history": tail(hist, 25)}
	rc.Res.StateSig = fmt.Sprintf("%s/c%d/x%d", st.Name, commits, conflicts)
}

// ---- concurrent mode through the cache ----
//
// 2-4 tasks over the gated simulated disk (a scheduling point before and,
// in two runs of three, after every storage operation; long stalls; yield on
// lock release): every write is made by a transaction (get, put / delete,
// commit), the other operations are plain reads through the same cache.
// Oracle ("the writes of a committed transaction become visible"): once all
// tasks are done, a plain read through the cache returns, for every key, what
// the store holds - a reader that was parked between its storage read and its
// cache fill while a transaction on that key committed must not leave the
// old value behind; and during the run a transaction that committed saw, for
// every key it read and also wrote, a value that some committed transaction
// wrote (never a rolled-back or failed one's).
func runC08CacheConcurrent(rc *RunCtx) {
	s, tp := rc.S, rc.S.Tape
	o := StackOpts{Bottom: "simdisk", CacheSize: []int{4, 8, 64, 300}[tp.Pick(4)]}
	o.Encoding = tp.Pick(2) == 1
	if tp.Pick(2) == 1 {
		o.Barrier = true
		o.Views = []string{"logical/"}
	}
	rc.Cfg("stack", "concurrent:"+o.String())
	st, err := BuildStack(s, o)
	if err != nil {
		panic(err)
	}
	st.Disk.PostGate = tp.Pick(3) != 0
	rc.Cfg("post_gate", st.Disk.PostGate)
	keys := []string{"a", "b", "d/x"}
	type cop struct {
		kind     string // get tx
		key      string // get: the key; tx: the key read
		key2     string // tx: the key written
		val      string // "" = delete
		rollback bool
	}
	nTasks := 2 + tp.Pick(3)
	nval := 0
	scripts := make([][]cop, nTasks)
	for t := range scripts {
		for j := 0; j < 3+tp.Pick(4); j++ {
			k := keys[tp.Pick(len(keys))]
			if tp.Pick(5) < 2 {
				scripts[t] = append(scripts[t], cop{kind: "get", key: k})
				continue
			}
			op := cop{kind: "tx", key: k, key2: keys[tp.Pick(len(keys))], rollback: tp.Pick(8) == 0}
			if tp.Pick(5) != 0 {
				nval++
				op.val = fmt.Sprintf("v%d", nval)
			}
			scripts[t] = append(scripts[t], op)
		}
	}
	var hist []string
	committed := map[string]map[string]bool{} // key -> values written by committed transactions
	uncommitted := map[string]string{}        // value -> why it never became durable
	for _, k := range keys {
		committed[k] = map[string]bool{}
	}
	bad := ""
	s.SwarmFreeze()
	rc.Cfg("sched", fmt.Sprintf("stall=%d yield_on_release=%v", s.FreezePermille, s.YieldOnRelease))
	s.SetControlled()
	for t := range scripts {
		t := t
		name := fmt.Sprintf("c%d", t)
		s.Go(name, func() {
			for _, op := range scripts[t] {
				if op.kind == "get" {
					v, ok, err := st.KV.Get(op.key)
					s.mu.Lock()
					hist = append(hist, fmt.Sprintf("%s get %s = %q %v %v", name, op.key, v, ok, err == nil))
					if why, un := uncommitted[string(v)]; err == nil && ok && un && bad == "" {
						bad = fmt.Sprintf("plain get %q returned %q, written only by a transaction that %s", op.key, v, why)
					}
					s.mu.Unlock()
					continue
				}
				tx, err := st.Begin(false)
				if err != nil {
					continue
				}
				_, _, err = tx.Get(op.key)
				if err == nil {
					if op.val == "" {
						err = tx.Delete(op.key2)
					} else {
						err = tx.Put(op.key2, []byte(op.val))
					}
				}
				outcome := "committed"
				switch {
				case err != nil:
					tx.Rollback()
					outcome = "failed before commit"
				case op.rollback:
					tx.Rollback()
					outcome = "was rolled back"
				default:
					if err = tx.Commit(); err != nil {
						outcome = "failed to commit"
					}
				}
				s.mu.Lock()
				hist = append(hist, fmt.Sprintf("%s tx get %s, put %s=%q -> %s", name, op.key, op.key2, op.val, outcome))
				if op.val != "" {
					if outcome == "committed" {
						committed[op.key2][op.val] = true
					} else {
						uncommitted[op.val] = outcome
					}
				}
				s.mu.Unlock()
			}
		})
	}
	s.Run()
	s.PassThrough()
	if s.Trunc {
		return
	}
	sig := map[string]any{"stack": "concurrent-cache", "cache_layer": true}
	if bad != "" {
		s.Violate("C08", "uncommitted-write-visible", sig, "stack %s: %s; history %v", st.Name, bad, hist)
		return
	}
	// cache-less twin over the same disk
	o2 := o
	o2.CacheSize = 0
	twin := &Stack{Disk: st.Disk, Bottom: st.Bottom, Barrier: st.Barrier, barrierKey: st.barrierKey}
	if err := layer(twin, st.Bottom, o2); err != nil {
		panic(err)
	}
	for _, k := range keys {
		v1, ok1, err1 := st.KV.Get(k)
		v2, ok2, err2 := twin.KV.Get(k)
		if err1 != nil || err2 != nil {
			panic(fmt.Sprint("final read: ", err1, err2))
		}
		if ok2 && !committed[k][string(v2)] {
			s.Violate("C08", "uncommitted-write-visible", sig, "stack %s: the store holds %q=%q, which no committed transaction wrote; history %v", st.Name, k, v2, hist)
			return
		}
		if ok1 != ok2 || string(v1) != string(v2) {
			s.Violate("C08", "committed-write-not-visible", sig,
				"stack %s: all tasks are done; a plain get of %q through the cache returns (%q,%v) but the last committed transaction left (%q,%v) in the store; history %v", st.Name, k, v1, ok1, v2, ok2, hist)
			return
		}
		// and inside a new transaction
		tx, err := st.Begin(true)
		if err == nil {
			v3, ok3, err3 := tx.Get(k)
			tx.Rollback()
			if err3 == nil && (ok3 != ok2 || string(v3) != string(v2)) {
				s.Violate("C08", "committed-write-not-visible", sig, "stack %s: a new transaction reads %q=(%q,%v), the store holds (%q,%v); history %v", st.Name, k, v3, ok3, v2, ok2, hist)
				return
			}
		}
	}
	s.Probe("cache_concurrent_checked")
	rc.Res.Sample = map[string]any{"stack": st.Name, "history": tail(hist, 16)}
	rc.Res.StateSig = "conc/" + st.Name
}
