package verifsim

import (
	"encoding/json"
	"fmt"
	"strings"
	"time"

	"github.com/openbao/openbao/v2/internal/builtin/logical/kv"
	"github.com/openbao/openbao/v2/internal/vault"
	"github.com/openbao/openbao/v2/internal/vault/barrier"
	"github.com/openbao/openbao/sdk/v2/logical"
)

// C12 — mounts, cubbyholes and namespaces are confined to their own storage
// and scope.
//
// Topology from the tape: namespaces team/, team/sub/, other/ (team/ may have
// its own Shamir seal), recording backends and a kv mount with look-alike
// names (app/, app2/, apple/) in several namespaces. Requests use hostile path
// spellings (doubled slashes, dot segments, mount-boundary look-alikes,
// namespace given by header, by path prefix, or both) and run concurrently
// under the scheduler; every physical operation is attributed to the request
// that issued it.
//
// Oracles: (a) a request handled by mount M touches no logical/ or auth/
// storage outside M's own prefix (incl. its namespace part); (b) a canary
// written through mount A is never returned by a request that another mount
// handled, whatever the spelling; (c) cubbyhole data is returned only to the
// token that wrote it and is gone after that token's revocation; (d) a token
// and policy of namespace team/ authorise nothing in the root namespace or in
// other/, but do in team/ and team/sub/; (e) from the moment a namespace
// seal returned until unseal returned, every request into it fails, no
// backend handler of it runs and no client request reads or writes storage
// under its prefix.

func init() {
	register(&Scenario{Prop: "C12", Name: "confinement", Run: runC12})
}

type c12Mount struct {
	ns     string // "" | "team/" | "team/sub/" | "other/"
	path   string // "app/"
	kind   string // rec | kv
	uuid   string // backend uuid as seen by the recording backend
	prefix string // physical prefix of its storage view
	canary string
}

func runC12(rc *RunCtx) {
	s, tp := rc.S, rc.S.Tape
	opts := CoreOpts{DisableCache: tp.Pick(2) == 1, Plain: tp.Pick(3) == 2}
	sealable := tp.Pick(3) == 0
	rc.Cfg("cache_off", opts.DisableCache)
	rc.Cfg("plain_disk", opts.Plain)
	rc.Cfg("sealable_namespace", sealable)
	disk := NewDisk(s)
	// second scheduling point per storage operation (effect vs. continuation) in a third of the runs
	disk.PostGate = tp.Pick(3) == 2
	rc.Cfg("post_gate", disk.PostGate)
	disk.RecordOps = true
	rec := NewRecorder(s)
	opts.Logical = map[string]logical.Factory{"rec": RecFactory(rec, false), "kv": kv.Factory}
	h, err := BootCore(disk, opts)
	if err != nil {
		panic(err)
	}
	defer h.Shutdown()
	rootDo := func(ns, path string, op logical.Operation, data map[string]any) (*logical.Response, error) {
		return h.Do("setup", Req{Op: op, Path: path, Token: h.Root, NS: ns, Data: data})
	}
	var teamKeys []string
	nsData := map[string]any{}
	if sealable {
		nsData["seal"] = `seal "shamir" { shares = 1  threshold = 1 }`
	}
	resp, err := rootDo("", "sys/namespaces/team", logical.UpdateOperation, nsData)
	if err != nil || (resp != nil && resp.IsError()) {
		panic(fmt.Sprint("create team: ", err, resp))
	}
	if sealable && resp != nil {
		switch ks := resp.Data["key_shares"].(type) {
		case []string:
			teamKeys = ks
		case []any:
			for _, v := range ks {
				teamKeys = append(teamKeys, fmt.Sprint(v))
			}
		}
		if len(teamKeys) == 0 {
			panic(fmt.Sprintf("sealable namespace returned no key shares: %v", resp.Data))
		}
		// a freshly created sealable namespace may start sealed
		rootDo("", "sys/namespaces/team/unseal", logical.UpdateOperation, map[string]any{"key": teamKeys[0]})
	}
	// team2/ is a sibling whose name has team/'s name as a string prefix: scope
	// checks must compare whole path segments
	// team/sub/ may have a seal of its own, nested inside sealable team/
	nestedSeal := sealable && tp.Pick(2) == 1
	rc.Cfg("nested_sealable_namespace", nestedSeal)
	var subKeys []string
	for _, n := range []struct{ ns, name string }{{"team/", "sub"}, {"", "other"}, {"", "team2"}} {
		var d map[string]any
		if nestedSeal && n.name == "sub" {
			d = map[string]any{"seal": `seal "shamir" { shares = 1  threshold = 1 }`}
		}
		r, err := rootDo(n.ns, "sys/namespaces/"+n.name, logical.UpdateOperation, d)
		if err != nil || (r != nil && r.IsError()) {
			panic(fmt.Sprint("create ns: ", err))
		}
		if d != nil && r != nil {
			switch ks := r.Data["key_shares"].(type) {
			case []string:
				subKeys = ks
			case []any:
				for _, v := range ks {
					subKeys = append(subKeys, fmt.Sprint(v))
				}
			}
			if len(subKeys) == 0 {
				panic("nested sealable namespace returned no key shares")
			}
			rootDo("team/", "sys/namespaces/sub/unseal", logical.UpdateOperation, map[string]any{"key": subKeys[0]})
		}
	}
	var mounts []*c12Mount
	for _, m := range []c12Mount{
		{ns: "", path: "app/", kind: "rec"}, {ns: "", path: "app2/", kind: "rec"}, {ns: "", path: "apple/", kind: "kv"},
		{ns: "team/", path: "app/", kind: "rec"}, {ns: "team/sub/", path: "app/", kind: "rec"}, {ns: "other/", path: "app/", kind: "rec"}, {ns: "team/", path: "apple/", kind: "kv"}, {ns: "team2/", path: "app/", kind: "rec"},
	} {
		m := m
		if tp.Pick(6) == 5 && len(mounts) > 2 {
			continue
		}
		if r, err := rootDo(m.ns, "sys/mounts/"+strings.TrimSuffix(m.path, "/"), logical.UpdateOperation, map[string]any{"type": m.kind}); err != nil || (r != nil && r.IsError()) {
			panic(fmt.Sprint("mount: ", err, r))
		}
		m.canary = fmt.Sprintf("CANARY-c12-%s%s-%d", strings.ReplaceAll(m.ns, "/", "."), strings.TrimSuffix(m.path, "/"), tp.Pick(1<<20))
		// learn the mount's storage prefix (and uuid) from a probe write
		before := len(rec.Snapshot())
		wpath := m.path + "data/probe"
		val := map[string]any{"value": m.canary}
		if m.kind == "kv" {
			wpath = m.path + "probe"
		}
		if r, err := rootDo(m.ns, wpath, logical.UpdateOperation, val); err != nil || (r != nil && r.IsError()) {
			panic(fmt.Sprint("probe write: ", err, r))
		}
		for _, k := range disk.RawKeys("") {
			if strings.HasSuffix(k, "/probe") && strings.Contains(k, "logical/") {
				known := false
				for _, o := range mounts {
					if strings.HasPrefix(k, o.prefix) {
						known = true
					}
				}
				if !known {
					i := strings.Index(k, "logical/")
					rest := k[i+len("logical/"):]
					m.prefix = k[:i+len("logical/")+strings.Index(rest, "/")+1]
				}
			}
		}
		if m.kind == "rec" {
			if ev := rec.Snapshot()[before:]; len(ev) > 0 {
				m.uuid = ev[len(ev)-1].Mount
			}
		}
		if m.prefix == "" {
			panic("could not learn the storage prefix of " + m.ns + m.path)
		}
		mounts = append(mounts, &m)
	}
	byUUID := map[string]*c12Mount{}
	for _, m := range mounts {
		if m.uuid != "" {
			byUUID[m.uuid] = m
		}
	}
	must(h.Policy("p", `path "*" { capabilities = ["create","read","update","delete","list"] }`))
	rootTok, _, err := h.CreateToken("", map[string]any{"policies": []string{"p"}, "ttl": "1h"})
	must(err)
	if r, err := rootDo("team/", "sys/policies/acl/tp", logical.UpdateOperation, map[string]any{"policy": `path "*" { capabilities = ["create","read","update","delete","list","sudo"] }`}); err != nil || (r != nil && r.IsError()) {
		panic(fmt.Sprint("team policy: ", err))
	}
	tr, err := rootDo("team/", "auth/token/create", logical.UpdateOperation, map[string]any{"policies": []string{"tp"}, "ttl": "1h"})
	if err != nil || tr == nil || tr.Auth == nil {
		panic(fmt.Sprint("team token: ", err))
	}
	teamTok := tr.Auth.ClientToken
	// a token of team/ holding the root policy (what generate-root yields for a
	// namespace): all-powerful inside team/ and below, nothing outside
	teamRootTok, err := vault.VerifNamespaceRootToken(h.Core, "team/")
	if err != nil || teamRootTok == "" {
		panic(fmt.Sprint("team root token: ", err))
	}
	isTeamTok := func(t string) bool { return t == teamTok || t == teamRootTok }

	viol := func(class string, sig map[string]any, f string, a ...any) { s.Violate("C12", class, sig, f, a...) }

	// ---- mounts that reach into a child namespace: a mount made in P at
	// "<child>/<x>" must never serve requests addressed to namespace P/<child>/
	// (there a token and policy of the child would be authorised against
	// storage of the parent's mount). Whether the mount request is refused or
	// accepted is not judged; what a request into the child reaches is. ----
	nShadow := 0
	shadowProbe := func(parentNS, childSeg, when string) bool {
		nShadow++
		name := fmt.Sprintf("shadow%d", nShadow)
		childNS := parentNS + childSeg + "/"
		var mr *logical.Response
		var merr error
		viaRemount := tp.Pick(2) == 1
		if viaRemount {
			// ... or an existing mount of the parent moved there (sys/remount has its own conflict check)
			when += ", by remount"
			if r, err := rootDo(parentNS, "sys/mounts/tmp"+name, logical.UpdateOperation, map[string]any{"type": "rec"}); err != nil || (r != nil && r.IsError()) {
				return true
			}
			mr, merr = rootDo(parentNS, "sys/remount", logical.UpdateOperation, map[string]any{"from": "tmp" + name, "to": childSeg + "/" + name})
			if merr == nil && mr != nil && !mr.IsError() {
				id := fmt.Sprint(mr.Data["migration_id"])
				for w := 0; w < 20; w++ {
					s.SetControlled()
					s.Drain(time.Second, time.Second)
					s.PassThrough()
					if st, err := rootDo(parentNS, "sys/remount/status/"+id, logical.ReadOperation, nil); err == nil && st != nil {
						if js, _ := json.Marshal(st.Data["migration_info"]); strings.Contains(string(js), `"status":"success"`) || strings.Contains(string(js), `"status":"failure"`) {
							break
						}
					}
				}
			}
		} else {
			mr, merr = rootDo(parentNS, "sys/mounts/"+childSeg+"/"+name, logical.UpdateOperation, map[string]any{"type": "rec"})
		}
		accepted := merr == nil && (mr == nil || !mr.IsError())
		if accepted {
			s.Probe("mount_into_child_namespace_accepted")
		} else {
			s.Probe("mount_into_child_namespace_refused")
		}
		childTok, err := vault.VerifNamespaceRootToken(h.Core, childNS)
		if err != nil || childTok == "" {
			return true
		}
		before := len(rec.Snapshot())
		opsBefore := len(disk.Ops)
		r, _ := h.Do("shadow", Req{NS: childNS, Op: logical.UpdateOperation, Path: name + "/data/k", Token: childTok, Data: map[string]any{"value": "written-by-a-token-of-" + childNS}})
		// (sys/remount with a destination inside a child namespace MOVES the mount
		// into that namespace - by design; then the request is served from the
		// child's own storage, which is what is looked at)
		childPrefix := ""
		for _, x := range mounts {
			if x.ns == childNS {
				childPrefix = x.prefix[:strings.Index(x.prefix, "logical/")]
			}
		}
		inChild, outside := false, ""
		for _, o := range disk.Ops[opsBefore:] {
			if strings.HasPrefix(o.ReqID, "shadow-") && strings.Contains(o.Key, "logical/") && (o.Op == "put" || o.Op == "tx-put") {
				if childPrefix != "" && strings.HasPrefix(o.Key, childPrefix) {
					inChild = true
				} else {
					outside = o.Key
				}
			}
		}
		if viaRemount && (outside == "" || childPrefix == "") {
			if inChild {
				s.Probe("remount_moved_mount_into_child_namespace")
			}
			if accepted {
				rootDo(childNS, "sys/mounts/"+name, logical.DeleteOperation, nil)
			}
			rootDo(parentNS, "sys/mounts/tmp"+name, logical.DeleteOperation, nil)
			return true
		}
		for _, e := range rec.Snapshot()[before:] {
			if e.Kind == "handler" {
				viol("token-authorised-outside-its-namespace", map[string]any{"target_ns": parentNS, "via": "mount reaching into a child namespace", "when": when},
					"a mount made in namespace %q at %s/%s (accepted=%v, %s) served a request addressed to namespace %q with a token of that namespace: handler ran, response %v", parentNS, childSeg, name, accepted, when, childNS, r)
				return false
			}
		}
		if accepted {
			rootDo(parentNS, "sys/mounts/"+childSeg+"/"+name, logical.DeleteOperation, nil)
		}
		if viaRemount {
			rootDo(parentNS, "sys/mounts/tmp"+name, logical.DeleteOperation, nil)
		}
		return true
	}
	if tp.Pick(2) == 0 {
		for _, pc := range [][2]string{{"", "team"}, {"team/", "sub"}, {"", "other"}} {
			if tp.Pick(3) != 0 && !shadowProbe(pc[0], pc[1], "child namespace unsealed") {
				return
			}
		}
	}

	// ---- remounts (same namespace and across namespaces): the moved mount
	// keeps its data, and from then on lives - entirely - under its new
	// namespace's storage; the hostile requests below then run against the
	// moved mounts too ----
	nsPrefixOf := func(ns string) (string, bool) {
		if ns == "" {
			return "", true
		}
		for _, x := range mounts {
			if x.ns == ns {
				return x.prefix[:strings.Index(x.prefix, "logical/")], true
			}
		}
		return "", false
	}
	nMoves := 0
	if !sealable && tp.Pick(2) == 0 {
		nMoves = 1 + tp.Pick(2)
	}
	rc.Cfg("remounts", nMoves)
	for mv := 0; mv < nMoves && s.Viol == nil; mv++ {
		m := mounts[tp.Pick(len(mounts))]
		dstNS := []string{m.ns, "", "team/", "other/", "team/sub/"}[tp.Pick(5)]
		dstNSPrefix, ok := nsPrefixOf(dstNS)
		if !ok {
			continue
		}
		dstPath := fmt.Sprintf("moved%d/", mv)
		srcNSPrefix, _ := nsPrefixOf(m.ns)
		r, err := rootDo("", "sys/remount", logical.UpdateOperation, map[string]any{"from": m.ns + m.path, "to": dstNS + dstPath})
		if err != nil || r == nil || r.IsError() {
			s.Probe("remount_refused")
			continue
		}
		id := fmt.Sprint(r.Data["migration_id"])
		done := false
		for w := 0; w < 20 && !done; w++ {
			s.SetControlled()
			s.Drain(time.Second, time.Second)
			s.PassThrough()
			st, err := rootDo("", "sys/remount/status/"+id, logical.ReadOperation, nil)
			if err == nil && st != nil {
				js, _ := json.Marshal(st.Data["migration_info"])
				switch {
				case strings.Contains(string(js), `"status":"success"`):
					done = true
				case strings.Contains(string(js), `"status":"failure"`):
					w = 99
				}
			}
		}
		if !done {
			s.Probe("remount_not_completed")
			// state of the mount unknown: leave it out of the rest of the run
			for i, x := range mounts {
				if x == m {
					mounts = append(mounts[:i], mounts[i+1:]...)
					break
				}
			}
			continue
		}
		cross := dstNS != m.ns
		sig := map[string]any{"cross_namespace": cross, "kind": m.kind}
		rpath, wpath := dstPath+"data/probe", dstPath+"data/after-move"
		if m.kind == "kv" {
			rpath, wpath = dstPath+"probe", dstPath+"after-move"
		}
		// data continuity at the new path
		got, err := rootDo(dstNS, rpath, logical.ReadOperation, nil)
		if err != nil || !respHasCanary(got, m.canary) {
			viol("remounted-mount-lost-its-data", sig, "after remount %s%s -> %s%s the value written before the move is not returned at the new path (%v, %v)", m.ns, m.path, dstNS, dstPath, got, err)
			return
		}
		// a write through the moved mount lands under the destination
		// namespace, under ONE mount prefix, and nothing of the mount stays
		// behind under the source namespace
		if r, err := rootDo(dstNS, wpath, logical.UpdateOperation, map[string]any{"value": m.canary}); err != nil || (r != nil && r.IsError()) {
			viol("remounted-mount-refuses-writes", sig, "write through the moved mount %s%s failed: %v %v", dstNS, dstPath, err, r)
			return
		}
		muuid := strings.TrimSuffix(m.prefix[strings.Index(m.prefix, "logical/")+len("logical/"):], "/")
		newPrefix := ""
		for _, k := range disk.RawKeys("") {
			if !strings.Contains(k, "logical/"+muuid+"/") {
				continue
			}
			kp := k[:strings.Index(k, "logical/"+muuid+"/")+len("logical/"+muuid+"/")]
			want := dstNSPrefix + "logical/" + muuid + "/"
			if kp != want {
				viol("remounted-mount-storage-outside-its-namespace", sig, "after remount %s%s -> %s%s the mount's record %q is not under its namespace's storage %q (source namespace storage: %q)", m.ns, m.path, dstNS, dstPath, k, want, srcNSPrefix+"logical/"+muuid+"/")
				return
			}
			newPrefix = kp
		}
		if newPrefix == "" {
			viol("remounted-mount-lost-its-data", sig, "no record of the moved mount %s%s found in storage", dstNS, dstPath)
			return
		}
		m.ns, m.path, m.prefix = dstNS, dstPath, newPrefix
		s.Probe("remounted")
		if cross {
			s.Probe("remounted_across_namespaces")
		}
	}
	if s.Viol != nil {
		return
	}
	setupOps := len(disk.Ops)
	setupEvents := len(rec.Snapshot())

	// ---- hostile requests, some concurrently ----
	type shot struct {
		tag    string
		req    Req
		target *c12Mount
		desc   string
		resp   *logical.Response
		err    error
	}
	var shots []*shot
	nShots := 6 + tp.Pick(10)
	for i := 0; i < nShots; i++ {
		m := mounts[tp.Pick(len(mounts))]
		key := []string{"probe", "k1", "probe/", "../probe", "./probe", "probe/../probe", "%2e%2e/probe"}[tp.Pick(7)]
		base := "data/"
		if m.kind == "kv" {
			base = ""
		}
		p := m.path + base + key
		switch tp.Pick(9) {
		case 0:
			p = strings.Replace(p, "/", "//", 1)
		case 1:
			p = m.path + "../" + mounts[tp.Pick(len(mounts))].path + base + key
		case 2:
			p = strings.TrimSuffix(m.path, "/") + "2/" + base + key // look-alike mount
		case 3:
			p = strings.TrimSuffix(m.path, "/") + base + key // missing slash
		case 4:
			p = m.path + "./" + base + key
		}
		nsHeader, full := m.ns, p
		switch tp.Pick(4) {
		case 0: // namespace in the path instead of the header
			nsHeader, full = "", m.ns+p
		case 1: // split: first part header, rest path
			if strings.Count(m.ns, "/") == 2 {
				parts := strings.SplitN(m.ns, "/", 2)
				nsHeader, full = parts[0]+"/", parts[1]+p
			}
		case 2: // wrong namespace header
			nsHeader = []string{"", "team/", "other/", "team/sub/", "nosuch/", "team2/"}[tp.Pick(6)]
		}
		tok := []string{h.Root, rootTok, teamTok, teamRootTok}[tp.Pick(4)]
		op := []logical.Operation{logical.ReadOperation, logical.ReadOperation, logical.UpdateOperation, logical.ListOperation, logical.DeleteOperation}[tp.Pick(5)]
		r := Req{Op: op, Path: full, Token: tok, NS: nsHeader}
		if op == logical.UpdateOperation {
			r.Data = map[string]any{"value": fmt.Sprintf("w%d", i)}
		}
		shots = append(shots, &shot{tag: fmt.Sprintf("x%d", i), req: r, target: m, desc: fmt.Sprintf("%s ns=%q path=%q tok=%d", op, nsHeader, full, tp.Pos()%3)})
	}
	s.SwarmFreeze()
	rc.Cfg("sched", fmt.Sprintf("stall=%d yield_on_release=%v", s.FreezePermille, s.YieldOnRelease))
	s.SetControlled()
	group := 1 + tp.Pick(3)
	for i := 0; i < len(shots); i += group {
		for j := i; j < i+group && j < len(shots); j++ {
			sh := shots[j]
			s.Go(sh.tag, func() { sh.resp, sh.err = h.Do(sh.tag, sh.req) })
		}
		s.Run()
	}
	s.PassThrough()
	if s.Trunc {
		return
	}
	// (a) storage confinement per request
	events := rec.Snapshot()[setupEvents:]
	handledBy := map[string]*c12Mount{} // operation handler or existence check ran (storage attribution)
	opHandler := map[string]*c12Mount{}  // operation handler ran (authorisation)
	for _, e := range events {
		if e.Kind == "handler" || e.Kind == "exist" {
			if m := byUUID[e.Mount]; m != nil {
				handledBy[e.ReqID] = m
				if e.Kind == "handler" {
					opHandler[e.ReqID] = m
				}
			}
		}
	}
	for _, o := range disk.Ops[setupOps:] {
		if o.ReqID == "" || !strings.HasPrefix(o.ReqID, "x") {
			continue
		}
		i := strings.Index(o.Key, "logical/")
		if i < 0 || (i > 0 && !strings.HasPrefix(o.Key, "namespaces/")) {
			continue
		}
		m := handledBy[o.ReqID]
		if m == nil {
			// no recording-backend handler ran for this request: it may be a kv
			// request; then everything under logical/ must be ONE mount's prefix
			var owner *c12Mount
			for _, x := range mounts {
				if strings.HasPrefix(o.Key, x.prefix) {
					owner = x
				}
			}
			if owner != nil && owner.kind == "rec" {
				viol("storage-touched-without-handler", map[string]any{"op": o.Op}, "request %s touched %q (storage of %s%s) although no handler of that mount ran for it", o.ReqID, o.Key, owner.ns, owner.path)
				return
			}
			continue
		}
		if !strings.HasPrefix(o.Key, m.prefix) {
			viol("storage-outside-mount-prefix", map[string]any{"op": o.Op}, "request %s was handled by %s%s (prefix %s) but did %s %q", o.ReqID, m.ns, m.path, m.prefix, o.Op, o.Key)
			return
		}
	}
	// (b) canaries never surface through another mount
	for _, sh := range shots {
		if sh.resp == nil {
			continue
		}
		id := ""
		for _, e := range events {
			if strings.HasPrefix(e.ReqID, sh.tag+"-") {
				id = e.ReqID
			}
		}
		hm := handledBy[id]
		for _, m := range mounts {
			if !respHasCanary(sh.resp, m.canary) {
				continue
			}
			if hm != nil && hm != m {
				viol("canary-crossed-mounts", nil, "request %s (%s) was handled by %s%s and returned the canary of %s%s", sh.tag, sh.desc, hm.ns, hm.path, m.ns, m.path)
				return
			}
			if hm == nil && m.kind == "rec" {
				viol("canary-crossed-mounts", nil, "request %s (%s) returned the canary of %s%s although no handler of that mount ran", sh.tag, sh.desc, m.ns, m.path)
				return
			}
			// (d) namespace scope of the team token
			if isTeamTok(sh.req.Token) && !strings.HasPrefix(m.ns, "team/") {
				viol("token-authorised-outside-its-namespace", map[string]any{"target_ns": m.ns}, "the team/ token obtained the canary of %s%s (%s)", m.ns, m.path, sh.desc)
				return
			}
		}
		// (existence checks legitimately run before the ACL; only operation handlers count)
		if oh := opHandler[id]; isTeamTok(sh.req.Token) && oh != nil && !strings.HasPrefix(oh.ns, "team/") {
			viol("token-authorised-outside-its-namespace", map[string]any{"target_ns": oh.ns}, "a request with the team/ token reached an operation handler of %s%s (%s)", oh.ns, oh.path, sh.desc)
			return
		}
	}
	// policy names are resolved inside the token's own namespace whatever they
	// look like: (1) the root namespace gets an all-powerful policy whose NAME is
	// "team/tp" - the path of namespace team/ followed by the name of team/'s own
	// policy - and it is the one loaded last; (2) a token of team/ names a policy
	// "../<uuid of the root namespace>/p", a name that no policy of team/ has
	// and that, read as a path, climbs to the root namespace's policy "p"
	sweepToks := []string{teamTok, teamRootTok}
	sweepNames := []string{"policy tp", "root policy"}
	if tp.Pick(2) == 0 {
		all := `path "*" { capabilities = ["create","read","update","delete","list","sudo"] }`
		if err := h.Policy("team/tp", all); err == nil {
			h.RootRead("sys/policies/acl/team/tp")
			h.Do("warm", Req{Op: logical.ReadOperation, Path: "app/data/probe", Token: rootTok})
			s.Probe("colliding_policy_name_in_parent_namespace")
		}
		evil := "../00000000-0000-0000-0000-000000000000/p" // (namespace.RootNamespaceUUID)
		if r, err := rootDo("team/", "auth/token/create", logical.UpdateOperation, map[string]any{"policies": []string{evil}, "no_default_policy": true, "ttl": "1h"}); err == nil && r != nil && r.Auth != nil {
			sweepToks = append(sweepToks, r.Auth.ClientToken)
			sweepNames = append(sweepNames, "policy named "+evil)
			s.Probe("token_with_climbing_policy_name")
			// such a token holds no policy at all: nothing inside team/ either
			for _, m := range mounts {
				if m.kind == "rec" && strings.HasPrefix(m.ns, "team/") {
					before := len(rec.Snapshot())
					h.Do("neg", Req{Op: logical.ReadOperation, Path: m.path + "data/probe", Token: r.Auth.ClientToken, NS: m.ns})
					for _, e := range rec.Snapshot()[before:] {
						if e.Kind == "handler" {
							viol("token-authorised-outside-its-namespace", map[string]any{"target_ns": m.ns, "via": "policy name resolved outside the token's namespace"}, "a token of team/ whose only policy is named %q (no such policy in team/) reached a handler of %s%s", evil, m.ns, m.path)
							return
						}
					}
				}
			}
		}
	}
	// (d) swept deterministically: no team/ token obtains anything from a
	// mount of the root namespace, other/ or team2/
	for _, m := range mounts {
		if strings.HasPrefix(m.ns, "team/") || m.kind != "rec" {
			continue
		}
		for ti, tk := range sweepToks {
			before := len(rec.Snapshot())
			r, _ := h.Do("neg", Req{Op: logical.ReadOperation, Path: m.path + "data/probe", Token: tk, NS: m.ns})
			reached := false
			for _, e := range rec.Snapshot()[before:] {
				if e.Kind == "handler" {
					reached = true
				}
			}
			if respHasCanary(r, m.canary) || reached {
				viol("token-authorised-outside-its-namespace", map[string]any{"target_ns": m.ns}, "a token of team/ (%s) read %s%sdata/probe: canary returned=%v, handler reached=%v", sweepNames[ti], m.ns, m.path, respHasCanary(r, m.canary), reached)
				return
			}
		}
	}
	// positive control for (d): the team token works inside team/ and team/sub/
	for _, m := range mounts {
		if m.kind == "rec" && strings.HasPrefix(m.ns, "team/") {
			r, err := h.Do("pos", Req{Op: logical.ReadOperation, Path: m.path + "data/probe", Token: teamTok, NS: m.ns})
			if err != nil || !respHasCanary(r, m.canary) {
				s.Probe("team_token_refused_in_own_tree")
			} else {
				s.Probe("team_token_ok_in_own_tree")
			}
		}
	}
	// (c) cubbyhole. The writing token is a generated one, a token with an
	// operator-chosen id (its cubbyhole is keyed differently), or a token of
	// namespace team/.
	t1kind := tp.Pick(3)
	rc.Cfg("cubbyhole_token", []string{"generated", "custom-id", "namespace"}[t1kind])
	t1data := map[string]any{"policies": []string{"default"}, "ttl": "1h"}
	customID := fmt.Sprintf("custom-token-id-%d", tp.Pick(1<<20))
	if t1kind == 1 {
		t1data["id"] = customID
	}
	var t1 string
	t1ns := ""
	if t1kind == 2 && !sealable {
		if r, err := rootDo("team/", "auth/token/create", logical.UpdateOperation, map[string]any{"policies": []string{"default"}, "ttl": "1h"}); err == nil && r != nil && r.Auth != nil {
			t1, t1ns = r.Auth.ClientToken, "team/"
		}
	}
	if t1 == "" {
		t1, _, _ = h.CreateToken("", t1data)
	}
	t2, _, _ := h.CreateToken("", map[string]any{"policies": []string{"default"}, "ttl": "1h"})
	cub := fmt.Sprintf("CANARY-cubby-%d", tp.Pick(1<<20))
	h.Do("cub", Req{Op: logical.UpdateOperation, Path: "cubbyhole/mine", Token: t1, NS: t1ns, Data: map[string]any{"v": cub}})
	for _, p := range []string{"cubbyhole/mine", "cubbyhole//mine", "cubbyhole/./mine", "cubbyhole/"} {
		op := logical.ReadOperation
		if strings.HasSuffix(p, "/") {
			op = logical.ListOperation
		}
		r, _ := h.Do("cub", Req{Op: op, Path: p, Token: t2})
		if respHasCanary(r, cub) || (op == logical.ListOperation && r != nil && r.Data != nil && fmt.Sprint(r.Data["keys"]) != "[]" && fmt.Sprint(r.Data["keys"]) != "<nil>") {
			viol("cubbyhole-visible-to-other-token", nil, "token t2 saw t1's cubbyhole through %q: %v", p, r)
			return
		}
	}
	if r, _ := h.Do("cub", Req{Op: logical.ReadOperation, Path: "cubbyhole/mine", Token: t1, NS: t1ns}); !respHasCanary(r, cub) {
		viol("cubbyhole-lost", nil, "the writing token cannot read its own cubbyhole entry")
		return
	}
	h.Do("cub", Req{Op: logical.UpdateOperation, Path: "auth/token/revoke", Token: h.Root, Data: map[string]any{"token": t1}})
	s.SetControlled()
	s.Drain(30*time.Second, 5*time.Second)
	s.PassThrough()
	for _, k := range disk.RawKeys("") {
		if strings.HasSuffix(k, "/mine") && strings.Contains(k, "logical/") {
			viol("cubbyhole-remains", map[string]any{"token": []string{"generated", "custom-id", "namespace"}[t1kind]}, "cubbyhole entry %q still in storage after the revocation of its token", k)
			return
		}
	}
	// a token issued later under the same (operator-chosen) id is a different
	// token: it must not find the revoked token's cubbyhole
	if t1kind == 1 {
		if t3, _, err := h.CreateToken("", t1data); err == nil && t3 != "" {
			if r, _ := h.Do("cub", Req{Op: logical.ReadOperation, Path: "cubbyhole/mine", Token: t3}); respHasCanary(r, cub) {
				viol("cubbyhole-visible-to-other-token", map[string]any{"how": "token id reused after revocation"}, "a token created with the id of a revoked token reads the revoked token's cubbyhole: %v", r.Data)
				return
			}
			s.Probe("custom_id_token_recreated")
		}
	}
	// (e) sealed namespace
	if sealable {
		var team *c12Mount
		for _, m := range mounts {
			if m.ns == "team/" && m.kind == "rec" {
				team = m
			}
		}
		if r, err := rootDo("", "sys/namespaces/team/seal", logical.UpdateOperation, nil); err == nil && (r == nil || !r.IsError()) && team != nil {
			s.Faults["namespace-seal"]++
			opsBefore := len(disk.Ops)
			evBefore := len(rec.Snapshot())
			for i, p := range []string{"app/data/probe", "sub/app/data/probe", "apple/probe"} {
				for _, tok := range []string{h.Root, teamTok} {
					nsH, path := "team/", p
					if i == 1 {
						nsH, path = "team/sub/", "app/data/probe"
					}
					r, err := h.Do("sealed", Req{Op: logical.ReadOperation, Path: path, Token: tok, NS: nsH})
					if err == nil && r != nil && !r.IsError() && len(r.Data) > 0 {
						viol("sealed-namespace-served-data", nil, "read of %s%s while team/ is sealed returned %v", nsH, path, r.Data)
						return
					}
				}
			}
			for _, e := range rec.Snapshot()[evBefore:] {
				if m := byUUID[e.Mount]; m != nil && strings.HasPrefix(m.ns, "team/") && (e.Kind == "handler") {
					viol("sealed-namespace-handler-ran", nil, "a handler of %s%s ran while team/ was sealed", m.ns, m.path)
					return
				}
			}
			nsPrefix := team.prefix[:strings.Index(team.prefix, "logical/")]
			for _, o := range disk.Ops[opsBefore:] {
				if strings.HasPrefix(o.ReqID, "sealed-") && nsPrefix != "" && strings.HasPrefix(o.Key, nsPrefix+"logical/") {
					viol("sealed-namespace-storage-accessed", map[string]any{"op": o.Op}, "request %s did %s %q while team/ was sealed", o.ReqID, o.Op, o.Key)
					return
				}
			}
			// a namespace with its own seal nested in the sealed one: its barrier
			// is sealed as well, holds no key material, and stays sealed when
			// only the outer namespace is unsealed again
			var subMount *c12Mount
			for _, m := range mounts {
				if m.ns == "team/sub/" && m.kind == "rec" {
					subMount = m
				}
			}
			if nestedSeal && subMount != nil {
				sb := vault.VerifBarrierFor(h.Core, "team/sub/")
				if sb == nil || sb == vault.VerifBarrier(h.Core) {
					s.Probe("nested_barrier_not_found")
				} else {
					if !sb.Sealed() || barrier.VerifHoldsKeyMaterial(sb) {
						viol("nested-namespace-barrier-not-sealed", map[string]any{"sealed": sb.Sealed(), "holds_keys": barrier.VerifHoldsKeyMaterial(sb)}, "team/ was sealed, the barrier of team/sub/ (own seal) is sealed=%v and holds key material=%v", sb.Sealed(), barrier.VerifHoldsKeyMaterial(sb))
						return
					}
					if _, err := rootDo("", "sys/namespaces/team/unseal", logical.UpdateOperation, map[string]any{"key": teamKeys[0]}); err == nil {
						r, err := h.Do("sealed", Req{Op: logical.ReadOperation, Path: "app/data/probe", Token: h.Root, NS: "team/sub/"})
						if (err == nil && r != nil && !r.IsError() && len(r.Data) > 0) || !sb.Sealed() {
							viol("nested-namespace-unsealed-without-its-shares", nil, "team/ was unsealed with its own share only; team/sub/ (own seal) serves data=%v, its barrier is sealed=%v", r != nil && len(r.Data) > 0, sb.Sealed())
							return
						}
						rootDo("team/", "sys/namespaces/sub/unseal", logical.UpdateOperation, map[string]any{"key": subKeys[0]})
						r, err = h.Do("unsealed", Req{Op: logical.ReadOperation, Path: "app/data/probe", Token: h.Root, NS: "team/sub/"})
						if err != nil || !respHasCanary(r, subMount.canary) {
							s.Probe("nested_data_unreadable_after_unseal")
						} else {
							s.Probe("nested_data_back_after_unseal")
						}
					}
				}
			}
			// while team/ is sealed (its sys/ mount is gone from the router): a
			// mount made in the root namespace under team/'s path; judged once
			// team/ is unsealed again
			sealedShadow := ""
			if tp.Pick(2) == 0 {
				nShadow++
				sealedShadow = fmt.Sprintf("shadow%d", nShadow)
				mr, merr := rootDo("", "sys/mounts/team/"+sealedShadow, logical.UpdateOperation, map[string]any{"type": "rec"})
				if merr == nil && (mr == nil || !mr.IsError()) {
					s.Probe("mount_into_sealed_child_namespace_accepted")
				} else {
					s.Probe("mount_into_sealed_child_namespace_refused")
				}
			}
			// unseal and read again
			if _, err := rootDo("", "sys/namespaces/team/unseal", logical.UpdateOperation, map[string]any{"key": teamKeys[0]}); err == nil {
				if sealedShadow != "" {
					before := len(rec.Snapshot())
					r, _ := h.Do("shadow", Req{NS: "team/", Op: logical.UpdateOperation, Path: sealedShadow + "/data/k", Token: teamRootTok, Data: map[string]any{"value": "written-by-a-token-of-team/"}})
					for _, e := range rec.Snapshot()[before:] {
						if e.Kind == "handler" {
							viol("token-authorised-outside-its-namespace", map[string]any{"target_ns": "", "via": "mount reaching into a child namespace", "when": "mounted while the child namespace was sealed"},
								"a mount made in the root namespace at team/%s while team/ was sealed serves, after the unseal, a request addressed to team/ with a token of team/: handler ran, response %v", sealedShadow, r)
							return
						}
					}
				}
				r, err := h.Do("unsealed", Req{Op: logical.ReadOperation, Path: "app/data/probe", Token: h.Root, NS: "team/"})
				if err != nil || !respHasCanary(r, team.canary) {
					s.Probe("team_data_unreadable_after_unseal")
				} else {
					s.Probe("team_data_back_after_unseal")
				}
			}
		}
	}
	var descs []string
	for _, sh := range shots {
		descs = append(descs, sh.desc)
	}
	rc.Res.Sample = map[string]any{"mounts": len(mounts), "requests": tail(descs, 12)}
	rc.Res.StateSig = fmt.Sprintf("m%d/s%v", len(mounts), sealable)
}
