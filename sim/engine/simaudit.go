package verifsim

import (
	"bytes"
	"context"
	"fmt"
	"strconv"
	"sync"
	"sync/atomic"

	"github.com/openbao/openbao/v2/internal/audit"
	"github.com/openbao/openbao/sdk/v2/helper/salt"
	"github.com/openbao/openbao/sdk/v2/helper/simsync"
	"github.com/openbao/openbao/sdk/v2/logical"
)

// simaudit — a simulated audit device: the real AuditFormatter +
// JSONFormatWriter (+ real salt) writing to an in-memory sink. Per call the
// scheduler (fault at the gate) or a programmed outcome decides ok / error /
// panic.

type AuditEntry struct {
	Evt    int64
	Device string
	Phase  string // request | response
	ReqID  string
	Bytes  []byte
}

type AuditHub struct {
	mu      sync.Mutex
	sim     *Sim
	evt     *atomic.Int64
	Entries []AuditEntry // accepted entries only
	Calls   []AuditEntry // every call (Bytes nil), with outcome in Phase suffix
	// Outcome, if set, decides the result of a call (FaultNone: ok).
	Outcome func(device, phase, reqID string) Fault
	Devices map[string]*simAuditDev
}

func NewAuditHub(s *Sim, evt *atomic.Int64) *AuditHub {
	return &AuditHub{sim: s, evt: evt, Devices: map[string]*simAuditDev{}}
}

type simAuditDev struct {
	hub          *AuditHub
	name         string
	formatter    audit.AuditFormatter
	formatConfig audit.FormatterConfig
	// held across storage reads (salt creation parks at the disk gate), so it
	// must be a scheduler-granted lock: a waiter on a plain sync.Mutex is not
	// durably blocked and would stall the bubble
	saltMutex simsync.Mutex
	salt         *salt.Salt
	saltConfig   *salt.Config
	saltView     logical.Storage
}

func (h *AuditHub) Factory() audit.Factory {
	return func(ctx context.Context, conf *audit.BackendConfig) (audit.Backend, error) {
		d := &simAuditDev{hub: h, name: conf.Config["name"], saltConfig: conf.SaltConfig, saltView: conf.SaltView}
		d.formatConfig.HMACAccessor = true
		if v, ok := conf.Config["hmac_accessor"]; ok {
			b, err := strconv.ParseBool(v)
			if err != nil {
				return nil, err
			}
			d.formatConfig.HMACAccessor = b
		}
		if v, ok := conf.Config["elide_list_responses"]; ok {
			b, err := strconv.ParseBool(v)
			if err != nil {
				return nil, err
			}
			d.formatConfig.ElideListResponses = b
		}
		d.formatter.AuditFormatWriter = &audit.JSONFormatWriter{SaltFunc: d.Salt}
		h.mu.Lock()
		h.Devices[d.name] = d
		h.mu.Unlock()
		return d, nil
	}
}

func (d *simAuditDev) Salt(ctx context.Context) (*salt.Salt, error) {
	d.saltMutex.Lock()
	defer d.saltMutex.Unlock()
	if d.salt != nil {
		return d.salt, nil
	}
	s, err := salt.NewSalt(ctx, d.saltView, d.saltConfig)
	if err != nil {
		return nil, err
	}
	d.salt = s
	return s, nil
}

func (d *simAuditDev) GetHash(ctx context.Context, data string) (string, error) {
	s, err := d.Salt(ctx)
	if err != nil {
		return "", err
	}
	return audit.HashString(s, data), nil
}

func (d *simAuditDev) log(ctx context.Context, phase string, in *logical.LogInput, format func(*bytes.Buffer) error) error {
	id := ""
	if in != nil && in.Request != nil {
		id = in.Request.ID
	}
	f := FaultNone
	if d.hub.Outcome != nil {
		f = d.hub.Outcome(d.name, phase, id)
	} else if s := d.hub.sim; s != nil && s.Controlled() {
		f = s.Gate("audit", d.name+" "+phase+" "+id, true)
	}
	switch f {
	case FaultPanic:
		d.hub.record(AuditEntry{Device: d.name, Phase: phase + ":panic", ReqID: id}, false)
		panic(fmt.Sprintf("simaudit: device %s panics on %s", d.name, phase))
	case FaultErrNA, FaultErrApplied:
		d.hub.record(AuditEntry{Device: d.name, Phase: phase + ":error", ReqID: id}, false)
		return fmt.Errorf("simaudit: device %s fails on %s", d.name, phase)
	}
	buf := bytes.NewBuffer(nil)
	if err := format(buf); err != nil {
		d.hub.record(AuditEntry{Device: d.name, Phase: phase + ":format-error", ReqID: id}, false)
		return err
	}
	d.hub.record(AuditEntry{Device: d.name, Phase: phase, ReqID: id, Bytes: buf.Bytes()}, true)
	return nil
}

func (h *AuditHub) record(e AuditEntry, accepted bool) {
	h.mu.Lock()
	defer h.mu.Unlock()
	e.Evt = h.evt.Add(1)
	if accepted {
		h.Entries = append(h.Entries, e)
	}
	c := e
	c.Bytes = nil
	h.Calls = append(h.Calls, c)
}

func (d *simAuditDev) LogRequest(ctx context.Context, in *logical.LogInput) error {
	return d.log(ctx, "request", in, func(b *bytes.Buffer) error { return d.formatter.FormatRequest(ctx, b, d.formatConfig, in) })
}

func (d *simAuditDev) LogResponse(ctx context.Context, in *logical.LogInput) error {
	return d.log(ctx, "response", in, func(b *bytes.Buffer) error { return d.formatter.FormatResponse(ctx, b, d.formatConfig, in) })
}

func (d *simAuditDev) LogTestMessage(ctx context.Context, in *logical.LogInput, config map[string]string) error {
	return nil
}

func (d *simAuditDev) Reload(context.Context) error { return nil }
func (d *simAuditDev) Invalidate(context.Context) {
	d.saltMutex.Lock()
	d.salt = nil
	d.saltMutex.Unlock()
}

func (h *AuditHub) Accepted(reqID, phase string) []AuditEntry {
	h.mu.Lock()
	defer h.mu.Unlock()
	var out []AuditEntry
	for _, e := range h.Entries {
		if e.ReqID == reqID && e.Phase == phase {
			out = append(out, e)
		}
	}
	return out
}
