package verifsim

import (
	"fmt"
	"regexp"
	"sort"
	"strings"
	"time"

	"github.com/openbao/openbao/v2/internal/vault"
	"github.com/openbao/openbao/sdk/v2/logical"
)

// C06 — no dynamic secret or token is handed out without a durable lease.
//
// For one issuing request kind per run (leased secret read, with a 1-use
// token, response-wrapped; login on the recording auth method, wrapped;
// auth/token/create, create-orphan, against a role) a fault-free dry run
// counts the request's n storage operations; then EVERY k in 1..n is failed
// (err-na) in its own reboot of the same durable state, and every write
// prefix of the fault-free request is crashed and rebooted.
//
// Oracle. Response carries a secret / token => its lease entry (and, for
// secrets, a token index entry) is on disk. Response is an error => either
// rolled back (the backend saw a revoke for the generated secret, no lease or
// index names it) or fully recorded (entry AND index present and tracked);
// what is flagged is the partial state. After a crash: every lease in storage
// is tracked by the rebooted expiration manager.

func init() {
	register(&Scenario{Prop: "C06", Name: "lease-registration", Run: runC06})
}

var saltedLeaseRe = regexp.MustCompile(`/h[0-9a-f]{64}(\.[A-Za-z0-9]+)?$`)

var c06Kinds = []string{"creds", "creds-1use", "creds-wrapped", "login", "login-wrapped", "token-create", "token-create-orphan", "token-create-role", "token-create-root", "token-create-periodic", "creds-batch", "creds-batch-orphan", "token-create-root-id", "token-create-id"}

type c06Snap struct {
	lease, idx, tok []string
}

func c06Take(d *Disk) c06Snap {
	return c06Snap{lease: d.RawKeys("sys/expire/id/"), idx: d.RawKeys("sys/expire/token/"), tok: d.RawKeys("sys/token/id/")}
}

func added(after, before []string) []string {
	m := map[string]bool{}
	for _, k := range before {
		m[k] = true
	}
	var out []string
	for _, k := range after {
		if !m[k] {
			out = append(out, k)
		}
	}
	return out
}

func runC06(rc *RunCtx) {
	s, tp := rc.S, rc.S.Tape
	kind := c06Kinds[tp.Pick(len(c06Kinds))]
	opts := CoreOpts{DisableCache: tp.Pick(2) == 1, Plain: tp.Pick(3) == 2, DisableSSC: tp.Pick(2) == 1}
	ttl := []int{0, 60, 3600}[tp.Pick(3)]
	rc.Cfg("kind", kind)
	rc.Cfg("cache_off", opts.DisableCache)
	rc.Cfg("plain_disk", opts.Plain)
	rc.Cfg("ttl", ttl)
	base := NewDisk(s)
	rec0 := NewRecorder(s)
	opts.Logical = map[string]logical.Factory{"rec": RecFactory(rec0, false)}
	opts.Credential = map[string]logical.Factory{"rec": RecFactory(rec0, true)}
	h0, err := BootCore(base, opts)
	if err != nil {
		panic(err)
	}
	must(h0.Mount("rec", "rec", nil))
	must(h0.EnableAuth("rec", "rec"))
	must(h0.Policy("p", c04Policy+`
path "auth/token/create/*" { capabilities = ["update"] }
`))
	_, err = h0.RootWrite("auth/token/roles/r1", map[string]any{"allowed_policies": "p,default", "orphan": false, "token_period": "0"})
	must(err)
	caller, _, err := h0.CreateToken("", map[string]any{"policies": []string{"p"}, "ttl": "2h"})
	must(err)
	oneUse, _, err := h0.CreateToken("", map[string]any{"policies": []string{"p"}, "ttl": "2h", "num_uses": 1})
	must(err)
	// batch tokens: a child of `caller` (its leases are indexed under the
	// parent) and an orphan one from a login; both live 10 minutes, i.e.
	// shorter than the longest secret TTL drawn above
	batchTok, _, err := h0.CreateToken(caller, map[string]any{"policies": []string{"p"}, "ttl": "10m", "type": "batch"})
	must(err)
	batchOrphan := ""
	if lr, err := h0.Do("setup", Req{Op: logical.UpdateOperation, Path: "auth/rec/login", Data: map[string]any{"policies": "p", "ttl": 600, "token_type": "batch"}}); err == nil && lr != nil && lr.Auth != nil {
		batchOrphan = lr.Auth.ClientToken
	}
	h0.Shutdown()

	mkReq := func() Req {
		data := map[string]any{}
		if ttl > 0 {
			data["ttl"] = ttl
		}
		switch kind {
		case "creds":
			return Req{Op: logical.UpdateOperation, Path: "rec/creds/a", Token: caller, Data: data}
		case "creds-1use":
			return Req{Op: logical.UpdateOperation, Path: "rec/creds/a", Token: oneUse, Data: data}
		case "creds-wrapped":
			return Req{Op: logical.UpdateOperation, Path: "rec/creds/a", Token: caller, Data: data, WrapTTL: 5 * time.Minute}
		case "creds-batch":
			return Req{Op: logical.UpdateOperation, Path: "rec/creds/a", Token: batchTok, Data: data}
		case "creds-batch-orphan":
			return Req{Op: logical.UpdateOperation, Path: "rec/creds/a", Token: batchOrphan, Data: data}
		case "login":
			data["policies"] = "p"
			return Req{Op: logical.UpdateOperation, Path: "auth/rec/login", Data: data}
		case "login-wrapped":
			data["policies"] = "p"
			return Req{Op: logical.UpdateOperation, Path: "auth/rec/login", Data: data, WrapTTL: 5 * time.Minute}
		case "token-create":
			return Req{Op: logical.UpdateOperation, Path: "auth/token/create", Token: caller, Data: map[string]any{"policies": []string{"p"}, "ttl": "30m"}}
		case "token-create-orphan":
			return Req{Op: logical.UpdateOperation, Path: "auth/token/create-orphan", Token: caller, Data: map[string]any{"policies": []string{"p"}, "ttl": "30m"}}
		case "token-create-role":
			return Req{Op: logical.UpdateOperation, Path: "auth/token/create/r1", Token: caller, Data: map[string]any{"policies": []string{"p"}, "ttl": "30m"}}
		case "token-create-root": // a root token creating a non-expiring root token
			return Req{Op: logical.UpdateOperation, Path: "auth/token/create", Token: h0.Root, Data: map[string]any{"policies": []string{"root"}}}
		case "token-create-root-id": // ... with an id the operator chose (a break-glass token): usable by whoever knows the id
			return Req{Op: logical.UpdateOperation, Path: "auth/token/create", Token: h0.Root, Data: map[string]any{"policies": []string{"root"}, "id": "breakglass-root-token"}}
		case "token-create-id": // an expiring token with a chosen id
			return Req{Op: logical.UpdateOperation, Path: "auth/token/create", Token: h0.Root, Data: map[string]any{"policies": []string{"p"}, "ttl": "30m", "id": "breakglass-token"}}
		case "token-create-periodic":
			return Req{Op: logical.UpdateOperation, Path: "auth/token/create", Token: h0.Root, Data: map[string]any{"policies": []string{"p"}, "period": "1h"}}
		}
		panic(kind)
	}
	isSecretKind := strings.HasPrefix(kind, "creds")

	// one attempt on a reboot of the base state, failing the k-th storage op (0: none)
	type attempt struct {
		resp   *logical.Response
		err    error
		nOps   int
		rec    *Recorder
		disk   *Disk
		before c06Snap
		after  c06Snap
		h      *CoreH
		accBefore, accAfter []string
	}
	accessors := func(h *CoreH) []string {
		resp, err := h.Do("acc", Req{Op: logical.ListOperation, Path: "auth/token/accessors/", Token: h.Root})
		if err != nil || resp == nil || resp.Data == nil {
			return nil
		}
		var out []string
		switch ks := resp.Data["keys"].(type) {
		case []string:
			out = append(out, ks...)
		case []any:
			for _, k := range ks {
				out = append(out, fmt.Sprint(k))
			}
		}
		return out
	}
	run := func(k int) *attempt {
		d := base.Fork(s)
		rec := NewRecorder(s)
		o := h0.Opts
		o.Logical = map[string]logical.Factory{"rec": RecFactory(rec, false)}
		o.Credential = map[string]logical.Factory{"rec": RecFactory(rec, true)}
		hh := *h0
		hh.Opts = o
		h, err := Reboot(d, &hh)
		if err != nil {
			panic(err)
		}
		a := &attempt{rec: rec, disk: d, h: h, before: c06Take(d), accBefore: accessors(h)}
		s.SetControlled()
		t := s.Go(fmt.Sprintf("req%d", k), func() {
			a.resp, a.err = h.Do(fmt.Sprintf("req%d", k), mkReq())
		})
		t.FailAt = k
		s.Run()
		a.nOps = t.faultN
		s.Drain(30*time.Second, 5*time.Second)
		s.PassThrough()
		a.after = c06Take(d)
		a.accAfter = accessors(h)
		return a
	}

	dry := run(0)
	n := dry.nOps
	rc.Cfg("ops", n)
	if dry.err != nil && kind != "creds-1use" {
		panic(fmt.Sprintf("fault-free %s failed: %v", kind, dry.err))
	}
	evals := 0
	judge := func(a *attempt, k int) bool {
		evals++
		sig := map[string]any{"kind": kind, "failed_op": "none"}
		if k > 0 {
			sig["failed_op"] = "k"
		}
		newLease := added(a.after.lease, a.before.lease)
		newIdx := added(a.after.idx, a.before.idx)
		newTok := added(a.after.tok, a.before.tok)
		var secLease []string
		for _, l := range newLease {
			// (a wrapping token's own lease lives under the request path too,
			// named by its salted id: h + 64 hex digits)
			if strings.Contains(l, "/rec/creds/") && !saltedLeaseRe.MatchString(l) {
				secLease = append(secLease, l)
			}
		}
		gotSecret := a.resp != nil && a.resp.Secret != nil && a.resp.Secret.LeaseID != "" && !a.resp.IsError()
		gotToken := a.resp != nil && a.resp.Auth != nil && a.resp.Auth.ClientToken != ""
		gotWrapped := a.resp != nil && a.resp.WrapInfo != nil && a.resp.WrapInfo.Token != ""
		a.rec.mu.Lock()
		issued, revoked := 0, 0
		for id := range a.rec.Issued {
			issued++
			if a.rec.Revoked[id] > 0 {
				revoked++
			}
		}
		a.rec.mu.Unlock()
		desc := fmt.Sprintf("%s failing op %d/%d: secret=%v token=%v wrapped=%v err=%v issued=%d revoked=%d newLease=%v newIdx=%d newTok=%d", kind, k, n, gotSecret, gotToken, gotWrapped, a.err, issued, revoked, newLease, len(newIdx), len(newTok))
		if isSecretKind {
			handedOut := gotSecret || (gotWrapped && a.err == nil)
			if handedOut {
				if len(secLease) != 1 {
					s.Violate("C06", "secret-without-lease", sig, "a secret was handed out but %d lease entries exist for it; %s", len(secLease), desc)
					return false
				}
				// (an orphan batch token is not persisted and has no parent: there is
				// no token to index its leases under - documented in Register)
				if len(newIdx) < 1 && kind != "creds-batch-orphan" {
					s.Violate("C06", "secret-without-token-index", sig, "a secret was handed out, its lease has no token index entry; %s", desc)
					return false
				}
				return true
			}
			// nothing handed out
			if issued > revoked {
				// generated at the backend, not revoked: then it must be fully recorded
				if len(secLease) == 1 && (len(newIdx) >= 1 || kind == "creds-batch-orphan") {
					return true
				}
				s.Violate("C06", "secret-leaked-at-backend", sig, "the request failed, the generated secret was neither revoked at its backend nor fully recorded; %s", desc)
				return false
			}
			// revoked (or never generated): no remnants naming it
			if len(secLease) > 0 {
				if kind == "creds-1use" || kind == "creds-batch-orphan" || len(newIdx) >= 1 {
					// lease still queued for (lazy) revocation with its index: tracked, fine
					return true
				}
				s.Violate("C06", "partial-lease-state", sig, "lease entry without index after a failed registration; %s", desc)
				return false
			}
			if len(newIdx) > 0 {
				s.Violate("C06", "partial-lease-state", sig, "token index entry without lease entry after a failed registration (%v); %s", newIdx, desc)
				return false
			}
			return true
		}
		// token kinds
		if gotToken || (gotWrapped && a.err == nil) {
			authLease := 0
			for _, l := range newLease {
				if strings.Contains(l, "sys/expire/id/auth/") {
					authLease++
				}
			}
			if authLease < 1 {
				s.Violate("C06", "token-without-lease", sig, "a service token was handed out without a lease entry; %s", desc)
				return false
			}
			if gotToken {
				r2, e2 := a.h.Do("use", Req{Op: logical.ReadOperation, Path: "auth/token/lookup-self", Token: a.resp.Auth.ClientToken})
				if e2 != nil || r2 == nil || r2.IsError() {
					s.Probe("acknowledged_token_unusable")
				}
			}
			return true
		}
		// error: "a login or token creation whose lease registration fails
		// leaves no usable token behind". The client never saw the token, but
		// it exists: every token that appeared during the request is looked up
		// through its accessor (the lookup applies the token store's own
		// validity rules, incl. "an expiring token without a lease is revoked").
		// A token that still resolves is acceptable only if its lease was
		// recorded (the failing step came after registration).
		authLease := 0
		for _, l := range newLease {
			if strings.Contains(l, "sys/expire/id/auth/") {
				authLease++
			}
		}
		for _, acc := range added(a.accAfter, a.accBefore) {
			r2, e2 := a.h.Do("probe", Req{Op: logical.UpdateOperation, Path: "auth/token/lookup-accessor", Token: a.h.Root, Data: map[string]any{"accessor": acc}})
			alive := e2 == nil && r2 != nil && !r2.IsError() && r2.Data != nil
			if !alive {
				s.Probe("failed_creation_left_dead_accessor")
				continue
			}
			if authLease == 0 {
				s.Violate("C06", "usable-token-without-lease-after-failed-creation", sig, "the request failed, but a token it created (accessor %s, policies %v, ttl %v) still resolves and no lease was recorded for it; %s", acc, r2.Data["policies"], r2.Data["ttl"], desc)
				return false
			}
			s.Probe("failed_creation_left_token_with_lease")
		}
		// a token with an operator-chosen id is usable by whoever knows the id,
		// whatever became of its accessor: the request failed, so that id must
		// not work (a root token needs no lease to be accepted)
		if id, _ := mkReq().Data["id"].(string); id != "" {
			r2, e2 := a.h.Do("probe", Req{Op: logical.ReadOperation, Path: "auth/token/lookup-self", Token: id})
			if e2 == nil && r2 != nil && !r2.IsError() && r2.Data != nil && authLease == 0 {
				s.Violate("C06", "usable-token-without-lease-after-failed-creation", map[string]any{"kind": kind, "failed_op": sig["failed_op"], "via": "operator-chosen id"},
					"the request failed, but the token id it asked for is accepted (policies %v, ttl %v) and no lease was recorded for it; %s", r2.Data["policies"], r2.Data["ttl"], desc)
				return false
			}
			s.Probe("chosen_id_refused_after_failed_creation")
		}
		for _, tk := range newTok {
			salted := tk[strings.LastIndex(tk, "/")+1:]
			has := false
			for _, l := range a.after.lease {
				if strings.HasSuffix(l, salted) {
					has = true
				}
			}
			if !has {
				// entry without lease: unusable by the lookup rule (expiring token
				// with no lease is revoked on first lookup); count it
				s.Probe("token_entry_without_lease_after_failed_creation")
			}
		}
		return true
	}
	if !judge(dry, 0) {
		dry.h.Shutdown()
		return
	}
	// crash at every write prefix of the fault-free request
	from := base.LogLen() // fork copies state; its own log starts empty
	_ = from
	for k := 0; k <= dry.disk.LogLen() && s.Viol == nil; k++ {
		evals++
		fd := dry.disk.ForkAt(k, s)
		hh := *dry.h
		nh, err := Reboot(fd, &hh)
		if err != nil {
			s.Violate("C06", "unbootable-after-crash", map[string]any{"kind": kind}, "reboot on write prefix %d of %s failed: %v", k, kind, err)
			break
		}
		// let restore finish
		s.SetControlled()
		s.Drain(5*time.Second, time.Second)
		s.PassThrough()
		pend, nonexp, irr, restoring := vault.VerifTrackedLeases(nh.Core)
		tracked := map[string]bool{}
		for _, l := range append(append(pend, nonexp...), irr...) {
			tracked[l] = true
		}
		if !restoring {
			for _, l := range fd.RawKeys("sys/expire/id/") {
				id := strings.TrimPrefix(l, "sys/expire/id/")
				if !tracked[id] {
					s.Violate("C06", "stored-lease-not-tracked-after-crash", map[string]any{"kind": kind}, "after a crash at write prefix %d of %s the lease %q is in storage but not tracked", k, kind, id)
					break
				}
			}
		}
		nh.Shutdown()
	}
	dry.h.Shutdown()
	for k := 1; k <= n && s.Viol == nil; k++ {
		a := run(k)
		s.Faults["err-na"]++
		ok := judge(a, k)
		a.h.Shutdown()
		if !ok {
			return
		}
	}
	rc.Res.Evals = evals
	keys := []string{kind, fmt.Sprint(n)}
	sort.Strings(keys)
	rc.Res.Sample = map[string]any{"kind": kind, "storage_ops": n, "evaluations": evals}
	rc.Res.StateSig = fmt.Sprintf("%s/%d/%v/%v", kind, n, opts.DisableCache, opts.Plain)
}
