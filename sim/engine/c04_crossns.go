package verifsim

import (
	"fmt"
	"time"

	"github.com/openbao/openbao/sdk/v2/logical"
)

// C04, trees that cross namespace boundaries: a parent in namespace A
// (root, or n1) whose children were created in a namespace below it (n1, or
// n1/n2) - the parent's policy grants `<child-ns>/auth/token/create` - and
// their descendants, leases and cubbyholes there. The parent (or a token in
// the middle) is revoked by one of the five routes or expires; afterwards
// nothing in the revoked subtree is accepted in any namespace, on this node
// and on a node restarted from the durable state, and every lease issued
// under those tokens has been revoked at the backend.
func runC04CrossNS(rc *RunCtx) {
	s, tp := rc.S, rc.S.Tape
	cacheOff := tp.Pick(2) == 1
	rc.Cfg("mode", "cross-namespace-tree")
	rc.Cfg("cache_off", cacheOff)
	disk := NewDisk(s)
	rec := NewRecorder(s)
	h, err := BootCore(disk, CoreOpts{DisableCache: cacheOff, Plain: tp.Pick(3) == 2, DisableSSC: tp.Pick(2) == 1,
		Logical: map[string]logical.Factory{"rec": RecFactory(rec, false)}})
	if err != nil {
		panic(err)
	}
	defer func() { h.Shutdown() }()
	rootDo := func(ns string, op logical.Operation, path string, data map[string]any) *logical.Response {
		r, err := h.Do("setup", Req{NS: ns, Op: op, Path: path, Token: h.Root, Data: data})
		if err != nil || (r != nil && r.IsError()) {
			panic(fmt.Sprint("setup ", ns, path, ": ", err, r))
		}
		return r
	}
	// namespaces: "" > n1/ > n1/n2/
	rootDo("", logical.UpdateOperation, "sys/namespaces/n1", nil)
	rootDo("n1/", logical.UpdateOperation, "sys/namespaces/n2", nil)
	nss := []string{"", "n1/", "n1/n2/"}
	// in every namespace: a mount, and a policy that lets a token work there
	// and create (sudo: with any policy) tokens in every namespace below
	pol := `
path "auth/token/create" { capabilities = ["update","sudo"] }
path "+/auth/token/create" { capabilities = ["update","sudo"] }
path "+/+/auth/token/create" { capabilities = ["update","sudo"] }
path "auth/token/lookup-self" { capabilities = ["read"] }
path "auth/token/revoke-self" { capabilities = ["update"] }
path "rec/*" { capabilities = ["create","read","update","delete","list"] }
path "cubbyhole/*" { capabilities = ["create","read","update","delete","list"] }
`
	for _, ns := range nss {
		rootDo(ns, logical.UpdateOperation, "sys/mounts/rec", map[string]any{"type": "rec"})
		rootDo(ns, logical.UpdateOperation, "sys/policies/acl/p", map[string]any{"policy": pol})
		rootDo(ns, logical.UpdateOperation, "rec/data/x", map[string]any{"value": "v0"})
	}
	type xtok struct {
		name     string
		ns       int // index into nss
		id, acc  string
		parent   *xtok
		children []*xtok
		secrets  []string
		cubby    bool
	}
	expiry := tp.Pick(6) == 5
	var all []*xtok
	var hist []string
	mk := func(parent *xtok, ns int) *xtok {
		t := &xtok{name: fmt.Sprintf("t%d", len(all)+1), ns: ns, parent: parent}
		data := map[string]any{"policies": []string{"p"}, "ttl": "1h"}
		if expiry {
			data["ttl"] = "10m"
		}
		creator := h.Root
		if parent != nil {
			creator = parent.id
		}
		resp, err := h.Do("setup", Req{NS: nss[ns], Op: logical.UpdateOperation, Path: "auth/token/create", Token: creator, Data: data})
		if err != nil || resp == nil || resp.Auth == nil {
			hist = append(hist, fmt.Sprintf("create in %q under %v failed: %v %v", nss[ns], parent != nil, err, resp))
			return nil
		}
		t.id, t.acc = resp.Auth.ClientToken, resp.Auth.Accessor
		if parent != nil {
			parent.children = append(parent.children, t)
		}
		pn := "root-token"
		if parent != nil {
			pn = parent.name + "@" + nss[parent.ns]
		}
		hist = append(hist, fmt.Sprintf("%s@%q child of %s", t.name, nss[ns], pn))
		all = append(all, t)
		return t
	}
	// the top token lives in "" or n1/; every child lives in its parent's namespace or below it
	top := mk(nil, tp.Pick(2))
	if top == nil {
		panic("top token")
	}
	frontier := []*xtok{top}
	for d := 0; d < 1+tp.Pick(3); d++ {
		var next []*xtok
		for _, p := range frontier {
			for c := 0; c < 1+tp.Pick(2); c++ {
				ns := p.ns + tp.Pick(len(nss)-p.ns)
				if t := mk(p, ns); t != nil {
					next = append(next, t)
				}
			}
		}
		frontier = next
	}
	crossing := 0
	for _, t := range all {
		if t.parent != nil && t.parent.ns != t.ns {
			crossing++
		}
		if tp.Pick(2) == 0 {
			resp, err := h.Do("setup", Req{NS: nss[t.ns], Op: logical.ReadOperation, Path: "rec/creds/a", Token: t.id})
			if err == nil && resp != nil && resp.Data != nil {
				if id, ok := resp.Data["secret_id"].(string); ok {
					t.secrets = append(t.secrets, id)
				}
			}
		}
		if tp.Pick(2) == 0 {
			if _, err := h.Do("setup", Req{NS: nss[t.ns], Op: logical.UpdateOperation, Path: "cubbyhole/mine", Token: t.id, Data: map[string]any{"v": "cubby-" + t.name}}); err == nil {
				t.cubby = true
			}
		}
		if r, err := h.Do("setup", Req{NS: nss[t.ns], Op: logical.ReadOperation, Path: "auth/token/lookup-self", Token: t.id}); err != nil || r == nil || r.IsError() {
			panic(fmt.Sprint("fresh token not accepted: ", t.name, err, r))
		}
	}
	rc.Cfg("tokens", len(all))
	rc.Cfg("edges_crossing_namespaces", crossing > 0)
	if crossing > 0 {
		s.Probe("tree_crosses_namespaces")
	}
	// the token's own lease (for the "lease" route): looked up through its accessor
	x := all[tp.Pick(len(all))]
	method := []string{"revoke", "self", "accessor"}[tp.Pick(3)]
	if expiry {
		method = "expiry"
	}
	rc.Cfg("method", method)
	var dead []*xtok
	var walk func(t *xtok)
	walk = func(t *xtok) {
		dead = append(dead, t)
		for _, c := range t.children {
			walk(c)
		}
	}
	walk(x)
	nsx := nss[x.ns]
	var resp *logical.Response
	switch method {
	case "revoke":
		resp, err = h.Do("revoke", Req{NS: nsx, Op: logical.UpdateOperation, Path: "auth/token/revoke", Token: h.Root, Data: map[string]any{"token": x.id}})
	case "self":
		resp, err = h.Do("revoke", Req{NS: nsx, Op: logical.UpdateOperation, Path: "auth/token/revoke-self", Token: x.id})
	case "accessor":
		resp, err = h.Do("revoke", Req{NS: nsx, Op: logical.UpdateOperation, Path: "auth/token/revoke-accessor", Token: h.Root, Data: map[string]any{"accessor": x.acc}})
	case "expiry":
		s.Advance(11 * time.Minute)
	}
	if method != "expiry" && (err != nil || (resp != nil && resp.IsError())) {
		s.Probe("cross_ns_revocation_refused")
		return
	}
	s.Drain(3*time.Minute, 10*time.Second)
	hist = append(hist, fmt.Sprintf("%s of %s@%q acknowledged", method, x.name, nsx))
	sigOf := func(d *xtok, phase string) map[string]any {
		return map[string]any{"mode": "cross-namespace-tree", "method": method, "phase": phase, "is_target": d == x,
			"token_namespace_differs_from_parent": d.parent != nil && d.parent.ns != d.ns}
	}
	probe := func(hh *CoreH, phase string) bool {
		for _, d := range dead {
			for _, r := range []Req{
				{NS: nss[d.ns], Op: logical.ReadOperation, Path: "auth/token/lookup-self", Token: d.id},
				{NS: nss[d.ns], Op: logical.ReadOperation, Path: "rec/data/x", Token: d.id},
				{NS: nss[d.ns], Op: logical.ReadOperation, Path: "cubbyhole/mine", Token: d.id},
			} {
				resp, err := hh.Do("probe", r)
				if !isPermDenied(resp, err) {
					s.Violate("C04", "revoked-token-accepted", sigOf(d, phase), "%s: token %s (namespace %q) in the tree revoked through %s of %s is still accepted at %s: %v %v; tree: %v",
						phase, d.name, nss[d.ns], method, x.name, r.Path, resp, err, hist)
					return false
				}
			}
		}
		return true
	}
	if !probe(h, "after-revocation") {
		return
	}
	// every secret issued under a dead token was revoked at its backend
	revoked := map[string]bool{}
	for _, e := range rec.Snapshot() {
		if e.Kind == "revoke" && !e.Err {
			revoked[e.SecID] = true
		}
	}
	for _, d := range dead {
		for _, sec := range d.secrets {
			if !revoked[sec] {
				s.Violate("C04", "lease-not-revoked-with-token", map[string]any{"mode": "cross-namespace-tree", "method": method, "lease_registered_after_revocation_listed_leases": false},
					"secret %s issued under %s (namespace %q) was not revoked at its backend although the token's tree was revoked through %s of %s; tree: %v", sec, d.name, nss[d.ns], method, x.name, hist)
				return
			}
		}
	}
	// the living rest of the tree is untouched
	isDead := map[*xtok]bool{}
	for _, d := range dead {
		isDead[d] = true
	}
	for _, t := range all {
		if isDead[t] {
			continue
		}
		if r, err := h.Do("probe", Req{NS: nss[t.ns], Op: logical.ReadOperation, Path: "auth/token/lookup-self", Token: t.id}); err != nil || r == nil || r.IsError() {
			s.Probe("cross_ns_bystander_refused") // over-revocation is not this property's matter
		}
	}
	// ... and it stays that way on a node restarted from the durable state
	nh, err := Reboot(disk.Fork(s), h)
	if err != nil {
		panic(fmt.Sprint("reboot: ", err))
	}
	s.Faults["restart"]++
	ok := probe(nh, "after-restart")
	nh.Shutdown()
	if !ok {
		return
	}
	rc.Res.Sample = map[string]any{"tree": hist}
	rc.Res.StateSig = fmt.Sprintf("xns/%d/%v/%s", len(all), crossing > 0, method)
}
