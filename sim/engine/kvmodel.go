package verifsim

import (
	"sync/atomic"

	"github.com/anishathalye/porcupine"
	"sort"
	"strings"
)

// KV is the reference model of the physical key/value + listing contract:
// a map with sorted listings. It is deliberately trivial.
type KV struct {
	M map[string][]byte
}

func NewKV() *KV { return &KV{M: map[string][]byte{}} }

func (k *KV) Clone() *KV {
	n := &KV{M: make(map[string][]byte, len(k.M))}
	for key, v := range k.M {
		n.M[key] = v
	}
	return n
}

func (k *KV) Get(key string) ([]byte, bool) {
	v, ok := k.M[key]
	return v, ok
}

func (k *KV) Put(key string, v []byte) {
	k.M[key] = append([]byte{}, v...)
}

func (k *KV) Delete(key string) { delete(k.M, key) }

func (k *KV) Keys() []string {
	out := make([]string, 0, len(k.M))
	for key := range k.M {
		out = append(out, key)
	}
	sort.Strings(out)
	return out
}

// List returns the sorted immediate children of prefix, sub-prefixes marked
// by a trailing slash.
func (k *KV) List(prefix string) []string {
	seen := map[string]bool{}
	var out []string
	for key := range k.M {
		if !strings.HasPrefix(key, prefix) {
			continue
		}
		t := key[len(prefix):]
		if i := strings.Index(t, "/"); i >= 0 {
			t = t[:i+1]
		}
		if !seen[t] {
			seen[t] = true
			out = append(out, t)
		}
	}
	sort.Strings(out)
	return out
}

// ListPage is the slice of List(prefix) strictly after `after`, at most limit
// entries (limit <= 0: unlimited).
func (k *KV) ListPage(prefix, after string, limit int) []string {
	all := k.List(prefix)
	var out []string
	for _, e := range all {
		if after != "" && e <= after {
			continue
		}
		if limit > 0 && len(out) >= limit {
			break
		}
		out = append(out, e)
	}
	return out
}

// Under returns all keys with the given prefix, sorted.
func (k *KV) Under(prefix string) []string {
	var out []string
	for key := range k.M {
		if strings.HasPrefix(key, prefix) {
			out = append(out, key)
		}
	}
	sort.Strings(out)
	return out
}

// checkBounded runs porcupine with a budget of model steps. Inside a synctest
// bubble a wall-clock timeout never fires while the checker is computing (the
// fake clock only moves when every goroutine is blocked), so the bound is on
// work done: when it is exceeded the model stops producing successors and the
// verdict is discarded as inconclusive (Unknown) - never reported as Illegal.
func checkBounded(nd porcupine.NondeterministicModel, ops []porcupine.Operation, budget int64) porcupine.CheckResult {
	var n atomic.Int64
	var over atomic.Bool
	step := nd.Step
	nd.Step = func(state, input, output any) []any {
		if n.Add(1) > budget {
			over.Store(true)
			return nil
		}
		return step(state, input, output)
	}
	ok := porcupine.CheckOperations(nd.ToModel(), ops)
	if over.Load() {
		return porcupine.Unknown
	}
	if ok {
		return porcupine.Ok
	}
	return porcupine.Illegal
}
