package verifsim

import (
	"regexp"
	"encoding/json"
	"fmt"
	"sort"
	"strings"
	"time"

	"github.com/openbao/openbao/v2/internal/builtin/logical/kv"
	"github.com/openbao/openbao/sdk/v2/logical"
)

// C18 — a response-wrapping token reveals its payload exactly once.
//
// Workload: a KV secret holding a canary is read with response wrapping;
// k concurrent client tasks then attack the one wrapping token with
// first-party unwrap (token as client token), third-party unwrap (token in
// the body, another token as client), rewrap, lookup and revoke, interleaved
// at storage-operation and lock-hand-off granularity. A sequential epilogue
// tries every wrapping token the run has ever seen once more.
//
// Oracle: the canary is handed out at most once over the whole run; exactly
// once when no revocation/expiry/fault was part of the run; afterwards the
// token store and cubbyhole key sets are back to their baseline; the
// original requester never saw the canary; the wrapping token is refused on
// other paths; lookup reports the creation path; nothing after the TTL.

func init() {
	register(&Scenario{Prop: "C18", Name: "wrap-once", Run: runC18})
}

func hasCanary(v any, canary string) bool {
	b, _ := json.Marshal(v)
	if strings.Contains(string(b), canary) {
		return true
	}
	// raw bodies are []byte -> base64 in JSON; look into them
	switch x := v.(type) {
	case map[string]any:
		for _, e := range x {
			if hasCanary(e, canary) {
				return true
			}
		}
	case []byte:
		return strings.Contains(string(x), canary)
	}
	return false
}

func respHasCanary(resp *logical.Response, canary string) bool {
	if resp == nil {
		return false
	}
	if hasCanary(resp.Data, canary) {
		return true
	}
	if resp.Secret != nil && hasCanary(resp.Secret.InternalData, canary) {
		return true
	}
	return false
}

var clientTokenRe = regexp.MustCompile(`"client_token":"[^"]+"`)

func keysUnder(d *Disk, prefixes ...string) []string {
	var out []string
	for _, p := range prefixes {
		out = append(out, d.RawKeys(p)...)
	}
	sort.Strings(out)
	return out
}

func runC18(rc *RunCtx) {
	s, tp := rc.S, rc.S.Tape
	// ---- swarm configuration ----
	cacheOff := tp.Pick(2) == 1
	plain := tp.Pick(3) == 2
	ssc := tp.Pick(2) == 0
	nTasks := tp.Range(2, 4)
	expiry := tp.Pick(8) == 7 // sequential TTL scenario instead of a race
	faulty := !expiry && tp.Pick(5) == 4
	rc.Cfg("cache_off", cacheOff)
	rc.Cfg("plain_disk", plain)
	rc.Cfg("ssc", ssc)
	rc.Cfg("tasks", nTasks)
	rc.Cfg("expiry", expiry)
	rc.Cfg("faulty", faulty)

	disk := NewDisk(s)
	// second scheduling point per storage operation (effect vs. continuation) in a third of the runs
	disk.PostGate = tp.Pick(3) == 2
	rc.Cfg("post_gate", disk.PostGate)
	rec18 := NewRecorder(s)
	h, err := BootCore(disk, CoreOpts{
		DisableCache: cacheOff, CacheSize: 0, Plain: plain, DisableSSC: !ssc,
		Logical:    map[string]logical.Factory{"kv": kv.Factory},
		Credential: map[string]logical.Factory{"rec": RecFactory(rec18, true)},
	})
	if err != nil {
		panic(err)
	}
	defer h.Shutdown()
	if err := h.Mount("secret", "kv", nil); err != nil {
		panic(err)
	}
	canary := "CANARY-c18-" + fmt.Sprint(tp.SubSeed())
	if _, err := h.RootWrite("secret/foo", map[string]any{"v": canary}); err != nil {
		panic(err)
	}
	if err := h.Policy("reader", `path "secret/*" { capabilities = ["read"] }`); err != nil {
		panic(err)
	}
	// (the default policy grants sys/wrapping/{wrap,lookup,unwrap} but not rewrap)
	if err := h.Policy("rewrapper", `path "sys/wrapping/rewrap" { capabilities = ["update"] }`); err != nil {
		panic(err)
	}
	other, _, err := h.CreateToken("", map[string]any{"policies": []string{"default", "rewrapper"}})
	if err != nil {
		panic(err)
	}
	// the requester of the wrapped read: the root token, or (a third of the
	// runs) a login token whose ENTITY carries a powerful identity policy - the
	// wrapping token must not inherit any of the requester's privileges
	requester := h.Root
	entityRequester := tp.Pick(3) == 2
	rc.Cfg("requester_has_entity", entityRequester)
	if entityRequester {
		must(h.EnableAuth("rec", "rec"))
		must(h.Policy("team", `path "secret/*" { capabilities = ["create", "read", "update", "delete", "list"] }`))
		lr, err := h.Do("setup", Req{Op: logical.UpdateOperation, Path: "auth/rec/login", Data: map[string]any{"policies": "reader", "alias": "alice", "ttl": 7200}})
		if err != nil || lr == nil || lr.Auth == nil || lr.Auth.EntityID == "" {
			panic(fmt.Sprintf("entity login failed: %v %v", lr, err))
		}
		if _, err := h.RootWrite("identity/entity/id/"+lr.Auth.EntityID, map[string]any{"policies": []string{"team"}}); err != nil {
			panic(err)
		}
		requester = lr.Auth.ClientToken
	}
	// ---- a forged "wrapping token": an ordinary single-policy token that
	// planted wrapinfo / response entries in its own cubbyhole. The wrapping
	// endpoints must refuse it - whether or not the request itself asks for a
	// wrapped answer - or lookup would report a creation path the caller chose
	// and unwrap / rewrap would hand out caller-chosen data as a wrapped secret
	if tp.Pick(2) == 0 {
		forged, _, err := h.CreateToken("", map[string]any{"policies": []string{"default"}, "no_default_policy": false})
		if err == nil && forged != "" {
			h.Do("forge", Req{Op: logical.UpdateOperation, Path: "cubbyhole/wrapinfo", Token: forged, Data: map[string]any{"creation_ttl": 3600, "creation_time": time.Now().UTC().Format(time.RFC3339Nano), "creation_path": "auth/approle/role/app/secret-id"}})
			h.Do("forge", Req{Op: logical.UpdateOperation, Path: "cubbyhole/response", Token: forged, Data: map[string]any{"response": `{"data":{"secret_id":"chosen-by-the-caller"}}`}})
			for _, ep := range []string{"lookup", "unwrap", "rewrap"} {
				r := Req{Op: logical.UpdateOperation, Path: "sys/wrapping/" + ep, Token: other, Data: map[string]any{"token": forged}}
				if tp.Pick(2) == 0 {
					r.WrapTTL = time.Minute
				}
				resp, err := h.Do("forged", r)
				if err == nil && resp != nil && !resp.IsError() && (len(resp.Data) > 0 || resp.WrapInfo != nil) {
					s.Violate("C18", "non-wrapping-token-accepted", map[string]any{"endpoint": ep, "request_asks_for_wrapping": r.WrapTTL > 0},
						"sys/wrapping/%s accepted an ordinary token (policies [default], forged cubbyhole entries) presented as a wrapping token (request wrap TTL %s): data %v wrap_info %v", ep, r.WrapTTL, resp.Data, resp.WrapInfo)
					return
				}
			}
			h.Do("forge", Req{Op: logical.UpdateOperation, Path: "auth/token/revoke", Token: h.Root, Data: map[string]any{"token": forged}})
			s.SetControlled()
			s.Drain(5*time.Second, time.Second)
			s.PassThrough()
			s.Probe("forged_wrapping_token_refused")
		}
	}
	baseline := keysUnder(disk, "sys/token/", "logical/")

	// ---- the wrapped request: a KV read, a list, or a login ----
	payloadKind := []string{"secret", "secret", "list", "login"}[tp.Pick(4)]
	if payloadKind == "login" && !entityRequester {
		must(h.EnableAuth("rec", "rec"))
	}
	rc.Cfg("payload", payloadKind)
	wrapPath := "secret/foo"
	wrapReq := Req{Op: logical.ReadOperation, Path: "secret/foo", Token: requester}
	switch payloadKind {
	case "list":
		// the key NAME is the canary
		if _, err := h.RootWrite("secret/dir/"+canary, map[string]any{"v": "x"}); err != nil {
			panic(err)
		}
		wrapPath = "secret/dir/"
		wrapReq = Req{Op: logical.ListOperation, Path: wrapPath, Token: requester}
	case "login":
		wrapPath = "auth/rec/login"
		wrapReq = Req{Op: logical.UpdateOperation, Path: wrapPath, Data: map[string]any{"policies": "reader", "ttl": 3600}}
	}
	// "the payload was obtained": the canary for secrets and listings, a client token for a wrapped login
	gotPayload := func(r *logical.Response) bool {
		if payloadKind == "login" {
			if r == nil || r.IsError() {
				return false
			}
			if r.Auth != nil && r.Auth.ClientToken != "" {
				return true
			}
			// (unwrap hands the stored HTTP response back as a raw JSON body)
			for _, v := range r.Data {
				switch x := v.(type) {
				case []byte:
					if clientTokenRe.Match(x) {
						return true
					}
				case string:
					if clientTokenRe.MatchString(x) {
						return true
					}
				}
			}
			return false
		}
		return respHasCanary(r, canary)
	}
	baseline = keysUnder(disk, "sys/token/", "logical/")
	ttl := time.Duration(tp.Range(1, 600)) * time.Second
	wrapReq.WrapTTL = ttl
	resp, err := h.Do("wrap", wrapReq)
	if err != nil || resp == nil || resp.WrapInfo == nil {
		panic(fmt.Sprintf("wrapped read failed: %v %v", resp, err))
	}
	if gotPayload(resp) {
		s.Violate("C18", "requester-saw-payload", nil, "the response of the wrapped request contains the payload")
		return
	}
	wtok, wacc := resp.WrapInfo.Token, resp.WrapInfo.Accessor
	createdPath := resp.WrapInfo.CreationPath

	type outcome struct {
		task, kind string
		gotCanary  bool
		err        string
		newTok     string
	}
	var outs []outcome
	record := func(o outcome) {
		s.mu.Lock()
		outs = append(outs, o)
		s.mu.Unlock()
	}
	unwrap := func(task, tok string, third bool) outcome {
		var r Req
		if third {
			r = Req{Op: logical.UpdateOperation, Path: "sys/wrapping/unwrap", Token: other, Data: map[string]any{"token": tok}}
		} else {
			r = Req{Op: logical.UpdateOperation, Path: "sys/wrapping/unwrap", Token: tok}
		}
		resp, err := h.Do(task, r)
		o := outcome{task: task, kind: "unwrap"}
		if third {
			o.kind = "unwrap3"
		}
		if err != nil {
			o.err = err.Error()
		} else if resp != nil && resp.IsError() {
			o.err = resp.Error().Error()
		}
		o.gotCanary = gotPayload(resp)
		return o
	}

	if expiry {
		// sequential: lookup, cross the TTL (or not), unwrap
		lr, lerr := h.Do("lookup", Req{Op: logical.UpdateOperation, Path: "sys/wrapping/lookup", Token: other, Data: map[string]any{"token": wtok}})
		if lerr != nil || lr == nil || lr.Data["creation_path"] != createdPath || createdPath != wrapPath {
			s.Violate("C18", "lookup-wrong-creation-path", nil, "lookup reported %v (err %v), want creation_path %s", lr, lerr, wrapPath)
			return
		}
		// the wrapping token must be refused on any other path (a refused
		// use legitimately burns its single use, so only in some runs)
		misuse := tp.Pick(3) == 2
		rc.Cfg("misuse", misuse)
		if misuse {
			mr := Req{Op: logical.ReadOperation, Path: "secret/foo", Token: wtok}
			if tp.Pick(2) == 1 {
				mr = Req{Op: logical.UpdateOperation, Path: "secret/misuse", Token: wtok, Data: map[string]any{"v": "written-with-a-wrapping-token"}}
			}
			or, oerr := h.Do("misuse", mr)
			if oerr == nil && (or == nil || !or.IsError()) {
				s.Violate("C18", "wrapping-token-used-elsewhere", map[string]any{"requester_has_entity": entityRequester}, "the wrapping token was accepted for %s %s (requester with entity policies: %v)", mr.Op, mr.Path, entityRequester)
				return
			}
			if chk, _ := h.RootRead("secret/misuse"); chk != nil && chk.Data != nil {
				s.Violate("C18", "wrapping-token-used-elsewhere", map[string]any{"requester_has_entity": entityRequester}, "a write presented with the wrapping token took effect: %v", chk.Data)
				return
			}
		}
		before := tp.Pick(2) == 0
		if before {
			s.Advance(ttl - time.Second)
		} else {
			s.Advance(ttl + time.Duration(tp.Range(1, 120))*time.Second)
		}
		third := tp.Pick(2) == 1
		s.SetControlled()
		var o outcome
		s.Go("c0", func() { o = unwrap("c0", wtok, third) })
		s.Run()
		s.Drain(5*time.Second, time.Second)
		s.PassThrough()
		if before && !o.gotCanary && !misuse {
			s.Violate("C18", "payload-lost-before-ttl", map[string]any{"ttl_s": int(ttl / time.Second)}, "unwrap one second before the TTL failed: %s", o.err)
			return
		}
		if !before && o.gotCanary {
			s.Violate("C18", "payload-after-ttl", map[string]any{"ttl_s": int(ttl / time.Second)}, "unwrap after TTL returned the payload")
			return
		}
		rc.Res.Sample = map[string]any{"mode": "expiry", "before_ttl": before, "got": o.gotCanary, "err": o.err}
		return
	}

	// ---- concurrent attack ----
	kinds := []string{"unwrap", "unwrap3", "rewrap", "lookup", "revoke", "unwrap"}
	revoked := false
	var plan []string
	for i := 0; i < nTasks; i++ {
		k := kinds[tp.Pick(len(kinds))]
		if i == 0 {
			k = kinds[tp.Pick(2)] // at least one unwrap
		}
		if k == "revoke" {
			revoked = true
		}
		plan = append(plan, k)
	}
	rc.Cfg("plan", strings.Join(plan, ","))
	if faulty {
		s.SetFaults(40, 2, FaultErrNA)
	}
	s.SwarmFreeze()
	rc.Cfg("sched", fmt.Sprintf("stall=%d yield_on_release=%v", s.FreezePermille, s.YieldOnRelease))
	s.SetControlled()
	for i, k := range plan {
		name := fmt.Sprintf("c%d", i)
		k := k
		s.Go(name, func() {
			switch k {
			case "unwrap":
				record(unwrap(name, wtok, false))
			case "unwrap3":
				record(unwrap(name, wtok, true))
			case "rewrap":
				resp, err := h.Do(name, Req{Op: logical.UpdateOperation, Path: "sys/wrapping/rewrap", Token: other, Data: map[string]any{"token": wtok}})
				o := outcome{task: name, kind: "rewrap"}
				if err != nil {
					o.err = err.Error()
				} else if resp != nil && resp.IsError() {
					o.err = resp.Error().Error()
				} else if resp != nil && resp.WrapInfo != nil {
					o.newTok = resp.WrapInfo.Token
				}
				o.gotCanary = gotPayload(resp)
				if o.newTok != "" {
					s.Probe("rewrap_minted_new_token")
				} else {
					s.Probe("rewrap_refused")
				}
				record(o)
			case "lookup":
				resp, err := h.Do(name, Req{Op: logical.UpdateOperation, Path: "sys/wrapping/lookup", Token: other, Data: map[string]any{"token": wtok}})
				o := outcome{task: name, kind: "lookup"}
				if err != nil {
					o.err = err.Error()
				} else if resp != nil && !resp.IsError() && resp.Data["creation_path"] != wrapPath {
					o.err = "BAD-CREATION-PATH"
				}
				o.gotCanary = gotPayload(resp)
				record(o)
			case "revoke":
				resp, err := h.Do(name, Req{Op: logical.UpdateOperation, Path: "auth/token/revoke-accessor", Token: h.Root, Data: map[string]any{"accessor": wacc}})
				o := outcome{task: name, kind: "revoke"}
				if err != nil {
					o.err = err.Error()
				} else if resp != nil && resp.IsError() {
					o.err = resp.Error().Error()
				}
				record(o)
			}
		})
	}
	s.Run()
	s.SetFaults(0, 0)
	s.Drain(10*time.Second, time.Second)
	s.PassThrough()
	if s.Trunc {
		return
	}

	// ---- epilogue: every wrapping token ever seen is tried once more ----
	delivered := 0
	toks := []string{wtok}
	for _, o := range outs {
		if o.gotCanary {
			delivered++
			if o.kind != "unwrap" && o.kind != "unwrap3" {
				s.Violate("C18", "payload-from-non-unwrap", map[string]any{"kind": o.kind}, "%s returned the payload", o.kind)
				return
			}
		}
		if o.err == "BAD-CREATION-PATH" {
			s.Violate("C18", "lookup-wrong-creation-path", nil, "lookup reported a wrong creation path")
			return
		}
		if o.newTok != "" {
			toks = append(toks, o.newTok)
		}
	}
	concurrent := delivered
	for _, tk := range toks {
		o := unwrap("epilogue", tk, false)
		if o.gotCanary {
			delivered++
		}
		o2 := unwrap("epilogue", tk, true)
		if o2.gotCanary {
			delivered++
		}
	}
	sig := map[string]any{"plan": strings.Join(plan, ","), "delivered": delivered}
	if delivered > 1 {
		s.Violate("C18", "payload-delivered-more-than-once", sig, "payload handed out %d times (in race: %d); outcomes %+v", delivered, concurrent, outs)
		return
	}
	// (a token rewrapped during the race lives for the original TTL; the race and
	// the settling after it take up to ~12 simulated seconds, so with a TTL
	// below that the new token may legitimately have expired by now)
	if delivered == 0 && !revoked && s.Faults["err-na"] == 0 && ttl > 20*time.Second {
		s.Violate("C18", "payload-lost", sig, "no unwrap obtained the payload although nothing revoked it; outcomes %+v", outs)
		return
	}
	// settle lazily queued revocations, then compare key sets
	s.SetControlled()
	s.Drain(30*time.Second, 5*time.Second)
	s.PassThrough()
	if s.Faults["err-na"] == 0 {
		after := keysUnder(disk, "sys/token/", "logical/")
		if payloadKind == "login" {
			// the token the wrapped login created lives on (with its accessor):
			// only the wrapping token's cubbyhole is compared
			after, baseline = onlyPrefix(after, "logical/"), onlyPrefix(baseline, "logical/")
		}
		if strings.Join(after, "\n") != strings.Join(baseline, "\n") {
			extra := diffKeys(after, baseline)
			// classify by what the mutation log says happened to the remnants
			sig := map[string]any{"token_entry_rewritten_after_delete": false, "revocation_lease_recreated": false, "payload_remains": false}
			for _, k := range extra {
				if strings.HasPrefix(k, "+sys/token/id/") {
					hist := disk.KeyHistory(k[1:])
					for i := 1; i < len(hist); i++ {
						if strings.HasPrefix(hist[i], "put:") && strings.HasPrefix(hist[i-1], "del:") {
							sig["token_entry_rewritten_after_delete"] = true
						}
					}
				}
				if strings.HasSuffix(k, "/response") {
					sig["payload_remains"] = true
				}
			}
			for _, k := range disk.EverWritten("sys/expire/id/") {
				hist := disk.KeyHistory(k)
				for i := 1; i < len(hist); i++ {
					if strings.HasPrefix(hist[i], "put:") && strings.HasPrefix(hist[i-1], "del:") {
						sig["revocation_lease_recreated"] = true
					}
				}
			}
			s.Violate("C18", "wrapping-remnants", sig, "token/cubbyhole keys remain after the token was consumed: %v", extra)
			return
		}
	}
	s.Probe("delivered_in_race_" + fmt.Sprint(concurrent))
	rc.Res.Sample = map[string]any{"plan": plan, "delivered": delivered, "in_race": concurrent}
}

func diffKeys(a, b []string) []string {
	m := map[string]bool{}
	for _, k := range b {
		m[k] = true
	}
	var out []string
	for _, k := range a {
		if !m[k] {
			out = append(out, "+"+k)
		}
	}
	m = map[string]bool{}
	for _, k := range a {
		m[k] = true
	}
	for _, k := range b {
		if !m[k] {
			out = append(out, "-"+k)
		}
	}
	return out
}


func onlyPrefix(keys []string, p string) []string {
	var out []string
	for _, k := range keys {
		if strings.HasPrefix(k, p) {
			out = append(out, k)
		}
	}
	return out
}
