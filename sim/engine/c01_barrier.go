package verifsim

import (
	"bytes"
	"context"
	"encoding/binary"
	"fmt"
	"strings"

	"github.com/openbao/openbao/v2/internal/helper/namespace"
	"github.com/openbao/openbao/v2/internal/vault/barrier"
	"github.com/openbao/openbao/sdk/v2/logical"
	"github.com/openbao/openbao/sdk/v2/physical"
)

// C01 — barrier: stored data is confidential, authenticated and bound to its key.
//
// Part A (this file): disk-corruption fault enumeration. Records are written
// through SecurityBarrier.Put and through BeginTx().Put (plain and
// transactional disk, root and namespace barrier, 0..3 key rotations, both
// on-disk record versions, value lengths 0..4 KiB). For every record the
// simulated disk is then corrupted at rest and the record read back through
// Get / transactional Get (data records) or Unseal / ReloadKeyring /
// ReloadRootKey (keyring and root-key records):
//   every single-bit flip (exhaustive up to 256 bytes, sampled above),
//   every truncation length, extension by 1/16 bytes, header rewrites
//   (term +-1, another live term, unknown term, version 1<->2, unknown
//   version), cross-key transplant (same and different prefix).
// Oracle: an error - never a panic, never a value other than the one last
// written under that key (legacy v1 records may be relocated and must then
// equal the source). No plaintext fragment of any written value appears in
// any byte string that reached the disk.
//
// Part B (c01_monitor.go): the plaintext-canary / non-ciphertext-write
// monitor over a whole simulated Core.

func init() {
	register(&Scenario{Prop: "C01", Name: "barrier-tamper", NoBubble: true, Run: runC01})
}

type c01Rec struct {
	key   string
	val   []byte
	viaTx bool
	v1    bool
	term  uint32
}

func runC01(rc *RunCtx) {
	tp := rc.S.Tape
	if tp.Pick(12) == 11 {
		runC01Monitor(rc)
		return
	}
	// inside a bubble: the keyring carries install timestamps, and with the
	// real clock their serialised length (hence the number of corruption
	// positions) would differ from process to process
	inBubble(rc, func() { runC01Tamper(rc) })
}

func runC01Tamper(rc *RunCtx) {
	s, tp := rc.S, rc.S.Tape
	plain := tp.Pick(3) == 2
	nsB := tp.Pick(3) == 2
	rotations := tp.Pick(4)
	rc.Cfg("mode", "tamper")
	rc.Cfg("plain_disk", plain)
	rc.Cfg("namespace_barrier", nsB)
	rc.Cfg("rotations", rotations)
	disk := NewDisk(s)
	var phys physical.Backend = disk
	if plain {
		phys = PlainDisk{disk}
	}
	ns := namespace.RootNamespace
	metaPrefix := ""
	if nsB {
		ns = &namespace.Namespace{ID: "nsid1", UUID: "11111111-2222-3333-4444-555555555555", Path: "team/"}
		metaPrefix = "namespaces/" + ns.UUID + "/"
	}
	b := barrier.NewAESGCMBarrier(phys, ns)
	ctx := namespace.ContextWithNamespace(context.Background(), ns)
	rootKey, err := b.GenerateKey()
	must(err)
	// a quarter of the runs: the store was initialised by a release that wrote
	// the legacy record format (keyring and root-key records carry version byte
	// 1) and is then opened by the current code - through a fresh barrier
	// (restart) or a keyring reload (standby). Everything the current code
	// writes from then on must be in the current, key-bound format.
	legacyInit := tp.Pick(4) == 3
	rc.Cfg("legacy_initialised_store", legacyInit)
	if legacyInit {
		barrier.VerifSetVersionByte(b, barrier.AESGCMVersion1)
	}
	must(b.Initialize(ctx, rootKey, nil))
	must(b.Unseal(ctx, rootKey))
	if legacyInit {
		if tp.Pick(2) == 0 {
			must(b.Seal())
			b = barrier.NewAESGCMBarrier(phys, ns)
			must(b.Unseal(ctx, rootKey))
		} else {
			barrier.VerifSetVersionByte(b, barrier.AESGCMVersion2)
			must(b.ReloadKeyring(ctx))
		}
		s.Probe("legacy_store_opened_by_current_code")
	}

	var written [][]byte // every plaintext ever written (confidentiality scan)
	disk.OnWrite = append(disk.OnWrite, func(key string, val []byte, del bool) {
		for _, p := range written {
			if len(p) >= 8 && bytes.Contains(val, p) {
				s.Violate("C01", "plaintext-on-disk", map[string]any{"key_class": keyClass(key)}, "a value written through the barrier appears in clear in the bytes stored under %q", shortKey(key))
			}
		}
	})

	lengths := []int{0, 1, 15, 16, 17, 100, 300, 4096}
	padLen := []int{0, 0, 30, 100, 120, 130, 250, 260, 520, 1030, 4100}[tp.Pick(11)]
	rc.Cfg("key_pad", padLen)
	var recs []*c01Rec
	nrec := 0
	writeSome := func(n int) {
		for i := 0; i < n; i++ {
			nrec++
			l := lengths[tp.Pick(len(lengths))]
			val := make([]byte, l)
			for j := range val {
				val[j] = byte('A' + (nrec*7+j*13)%53)
			}
			copy(val, fmt.Sprintf("PLAIN-%03d-", nrec))
			key := []string{"logical/m1/", "logical/m2/", "sys/token/id/", "logical/m1/sub/"}[tp.Pick(4)]
			if padLen > 0 && tp.Pick(3) != 0 {
				// long keys that agree on a long prefix and differ only at
				// their tail (deep paths inside one mount of one namespace):
				// key binding has to cover the whole key, not a bounded part
				key += strings.Repeat("deep-path-segment/", padLen/18+1)[:padLen]
			}
			key += fmt.Sprintf("k%d", nrec)
			r := &c01Rec{key: key, val: val}
			r.v1 = tp.Pick(5) == 4
			if r.v1 {
				barrier.VerifSetVersionByte(b, barrier.AESGCMVersion1)
			}
			written = append(written, val)
			tb, isTx := b.(logical.TransactionalStorage)
			if isTx && tp.Pick(2) == 1 {
				r.viaTx = true
				tx, err := tb.BeginTx(ctx)
				must(err)
				must(tx.Put(ctx, &logical.StorageEntry{Key: key, Value: val}))
				must(tx.Commit(ctx))
			} else {
				must(b.Put(ctx, &logical.StorageEntry{Key: key, Value: val}))
			}
			if r.v1 {
				barrier.VerifSetVersionByte(b, barrier.AESGCMVersion2)
			}
			raw, ok := disk.RawGet(key)
			if !ok || len(raw) < 5 {
				s.Violate("C01", "record-missing-on-disk", nil, "record %q not on disk after put", shortKey(key))
				return
			}
			r.term = binary.BigEndian.Uint32(raw[:4])
			recs = append(recs, r)
		}
	}
	writeSome(1 + tp.Pick(3))
	for i := 0; i < rotations; i++ {
		_, err := b.Rotate(ctx)
		must(err)
		writeSome(1 + tp.Pick(2))
	}
	if s.Viol != nil {
		return
	}
	terms, active, _ := barrier.VerifTerms(b)
	// new writes carry the newest term
	if last := recs[len(recs)-1]; last.term != active {
		s.Violate("C01", "write-not-under-newest-term", nil, "record written after %d rotations carries term %d, active term is %d", rotations, last.term, active)
		return
	}

	evals := 0
	get := func(viaTx bool, key string) (val []byte, found bool, err error, panicked string) {
		defer func() {
			if r := recover(); r != nil {
				panicked = fmt.Sprint(r)
			}
		}()
		evals++
		if viaTx {
			if tb, ok := b.(logical.TransactionalStorage); ok {
				tx, e := tb.BeginReadOnlyTx(ctx)
				if e != nil {
					return nil, false, e, ""
				}
				defer tx.Rollback(ctx)
				ent, e := tx.Get(ctx, key)
				if e != nil || ent == nil {
					return nil, false, e, ""
				}
				return ent.Value, true, nil, ""
			}
		}
		ent, e := b.Get(ctx, key)
		if e != nil || ent == nil {
			return nil, false, e, ""
		}
		return ent.Value, true, nil, ""
	}
	// judge one corrupted read of a data record
	judge := func(r *c01Rec, kind string, mutated []byte, orig []byte, allowVal []byte) bool {
		disk.RawPut(r.key, mutated)
		viaTx := tp.Pick(3) == 2
		val, found, err, pan := get(viaTx, r.key)
		disk.RawPut(r.key, orig)
		sig := map[string]any{"mutation": kind, "via_tx": viaTx, "record_v1": r.v1}
		if pan != "" {
			s.Violate("C01", "panic-on-tampered-record", sig, "reading %q after %s panicked: %s", shortKey(r.key), kind, pan)
			return false
		}
		if bytes.Equal(mutated, orig) {
			if err != nil || !found || !bytes.Equal(val, r.val) {
				s.Violate("C01", "identity-read-failed", sig, "unmodified record %q does not read back: %v", shortKey(r.key), err)
				return false
			}
			return true
		}
		if err == nil && found {
			if allowVal != nil && bytes.Equal(val, allowVal) {
				return true // legacy-format relocation: documented exception
			}
			if bytes.Equal(val, r.val) {
				// a mutation that still authenticates to the same value would be
				// a malleable encoding; report it distinctly
				s.Violate("C01", "tampered-record-accepted", sig, "record %q still reads back after %s", shortKey(r.key), kind)
				return false
			}
			s.Violate("C01", "tampered-record-returned-other-value", sig, "record %q returned a different value after %s: %q", shortKey(r.key), kind, trunc(val, 40))
			return false
		}
		if err == nil && !found {
			s.Violate("C01", "tampered-record-read-as-absent", sig, "record %q reads as absent (no error) after %s", shortKey(r.key), kind)
			return false
		}
		return true
	}

	for _, r := range recs {
		orig, _ := disk.RawGet(r.key)
		orig = append([]byte{}, orig...)
		if !judge(r, "identity", orig, orig, nil) {
			return
		}
		// bit flips
		nbits := len(orig) * 8
		stepBits := 1
		if len(orig) > 256 && !rc.Thorough() {
			stepBits = 1 + nbits/2048 // sampled, phase from the tape
		}
		for bit := tp.Pick(stepBits); bit < nbits; bit += stepBits {
			m := append([]byte{}, orig...)
			m[bit/8] ^= 1 << (bit % 8)
			if !judge(r, "bitflip", m, orig, nil) {
				return
			}
		}
		// truncations
		stepT := 1
		if len(orig) > 256 && !rc.Thorough() {
			stepT = 1 + len(orig)/256
		}
		for n := 0; n < len(orig); n += stepT {
			if !judge(r, "truncate", append([]byte{}, orig[:n]...), orig, nil) {
				return
			}
		}
		// extension
		for _, ext := range []int{1, 16} {
			m := append(append([]byte{}, orig...), bytes.Repeat([]byte{0x41}, ext)...)
			if !judge(r, "extend", m, orig, nil) {
				return
			}
		}
		// header rewrites
		setTerm := func(t uint32) []byte {
			m := append([]byte{}, orig...)
			binary.BigEndian.PutUint32(m[:4], t)
			return m
		}
		for _, t := range append([]uint32{r.term + 1, r.term - 1, 0, 0xffffffff, 99}, terms...) {
			if t == r.term {
				continue
			}
			if !judge(r, "term-rewrite", setTerm(t), orig, nil) {
				return
			}
		}
		for _, v := range []byte{0, 1, 2, 3, 0xff} {
			if v == orig[4] {
				continue
			}
			m := append([]byte{}, orig...)
			m[4] = v
			if !judge(r, "version-rewrite", m, orig, nil) {
				return
			}
		}
		// cross-key transplant: the bytes of every other record stored under this key
		for _, o := range recs {
			if o == r {
				continue
			}
			src, _ := disk.RawGet(o.key)
			var allow []byte
			if o.v1 {
				allow = o.val // legacy records are authenticated but relocatable
			}
			if !judge(r, "transplant", append([]byte{}, src...), orig, allow) {
				return
			}
		}
	}

	// ---- keyring and root-key records ----
	tamperMeta := func(path string, op string, f func() error) bool {
		orig, ok := disk.RawGet(path)
		if !ok {
			s.Violate("C01", "record-missing-on-disk", nil, "%s not on disk", path)
			return false
		}
		orig = append([]byte{}, orig...)
		try := func(kind string, m []byte) bool {
			disk.RawPut(path, m)
			var err error
			pan := ""
			func() {
				defer func() {
					if r := recover(); r != nil {
						pan = fmt.Sprint(r)
					}
				}()
				evals++
				err = f()
			}()
			disk.RawPut(path, orig)
			sig := map[string]any{"mutation": kind, "op": op, "len": len(m)}
			if kind == "truncate" && len(m) >= 4 {
				sig["len"] = ">=4"
			}
			if pan != "" {
				s.Violate("C01", "panic-on-tampered-record", sig, "%s with %s %s (%d of %d bytes) panicked: %s", op, path, kind, len(m), len(orig), pan)
				return false
			}
			if bytes.Equal(m, orig) {
				if err != nil {
					s.Violate("C01", "identity-read-failed", sig, "%s with unmodified %s failed: %v", op, path, err)
					return false
				}
				return true
			}
			if err == nil {
				s.Violate("C01", "tampered-record-accepted", sig, "%s accepted %s after %s", op, path, kind)
				return false
			}
			return true
		}
		if !try("identity", orig) {
			return false
		}
		step := 1
		if len(orig) > 512 && !rc.Thorough() {
			step = 1 + len(orig)*8/4096
		}
		for bit := tp.Pick(step); bit < len(orig)*8; bit += step {
			m := append([]byte{}, orig...)
			m[bit/8] ^= 1 << (bit % 8)
			if !try("bitflip", m) {
				return false
			}
		}
		for n := 0; n < len(orig); n++ {
			if !try("truncate", append([]byte{}, orig[:n]...)) {
				return false
			}
		}
		if !try("extend", append(append([]byte{}, orig...), 0x41)) {
			return false
		}
		// transplant: a data record stored where the keyring / root key lives
		if len(recs) > 0 {
			src, _ := disk.RawGet(recs[0].key)
			if !try("transplant", append([]byte{}, src...)) {
				return false
			}
		}
		return true
	}
	keyringPath := metaPrefix + barrier.KeyringPath
	rootKeyPath := metaPrefix + barrier.RootKeyPath
	if !tamperMeta(keyringPath, "Unseal", func() error {
		nb := barrier.NewAESGCMBarrier(phys, ns)
		return nb.Unseal(ctx, rootKey)
	}) {
		return
	}
	if !tamperMeta(keyringPath, "ReloadKeyring", func() error { return b.ReloadKeyring(ctx) }) {
		return
	}
	if !tamperMeta(rootKeyPath, "ReloadRootKey", func() error { return b.ReloadRootKey(ctx) }) {
		return
	}
	// after all that the live barrier still works and every record reads back
	for _, r := range recs {
		val, found, err, pan := get(false, r.key)
		if pan != "" || err != nil || !found || !bytes.Equal(val, r.val) {
			s.Violate("C01", "record-lost-after-tamper-cycle", nil, "record %q does not read back after the tamper cycle: %v %s", shortKey(r.key), err, pan)
			return
		}
	}
	rc.Res.Evals = evals
	s.Steps = evals
	s.ProbeN("tamper_evaluations", evals)
	rc.Res.Sample = map[string]any{"records": len(recs), "terms": len(terms), "evaluations": evals, "first_key": recs[0].key, "namespace_barrier": nsB, "plain_disk": plain}
	rc.Res.StateSig = fmt.Sprintf("r%d/t%d/p%v/n%v/%s", len(recs), len(terms), plain, nsB, recSig(recs))
}

func recSig(recs []*c01Rec) string {
	var sb strings.Builder
	for _, r := range recs {
		fmt.Fprintf(&sb, "%d%v%v,", len(r.val), r.viaTx, r.v1)
	}
	return sb.String()
}

// shortKey elides the middle of long storage keys in messages.
func shortKey(k string) string {
	if len(k) <= 90 {
		return k
	}
	return fmt.Sprintf("%s...(%d bytes)...%s", k[:40], len(k), k[len(k)-20:])
}

func trunc(b []byte, n int) []byte {
	if len(b) > n {
		return b[:n]
	}
	return b
}

func keyClass(k string) string {
	if i := strings.Index(k, "/"); i > 0 {
		return k[:i]
	}
	return k
}
