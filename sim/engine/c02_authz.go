package verifsim

import (
	"encoding/json"
	"fmt"
	"sort"
	"strings"
	"time"

	"github.com/anishathalye/porcupine"
	"github.com/openbao/openbao/sdk/v2/logical"
)

// C02 — no backend effect or data without a live token and an allowing policy.
//
// A recording secrets engine (with declared unauthenticated open/* and
// root-protected admin/* paths). 3-5 policies from a deliberately
// NON-OVERLAPPING grammar (literal paths and one trailing-* pattern that never
// intersect; capability subsets incl. deny and sudo), so that the reference
// authoriser is trivial and does not re-implement priority rules (C03).
// Tokens in every state: none, malformed, mutated SSC token, revoked, expired
// by the clock, use-exhausted, CIDR-bound, batch, root, entity disabled.
// Client tasks issue requests while mutator tasks rewrite / delete policies,
// revoke tokens and disable entities - interleaved at storage-operation and
// lock-hand-off granularity; fault runs fail storage operations in the
// authorisation path.
//
// Oracles. (1) Linearizability (porcupine): sequential model state =
// (policy texts, revoked tokens, disabled entities, remaining uses); a
// request's outcome class {denied, reached-handler} must be explainable by
// some linearization - "policy and token changes are honoured by the very
// next request". (2) Every operation-handler invocation is authorised by the
// model at some point of the request's interval (implied by 1). (3) A denied
// request has no operation-handler record and no storage mutation under the
// mount attributed to it. (4) Under an injected storage error the outcome is
// never "allowed" where the model denies.

func init() {
	register(&Scenario{Prop: "C02", Name: "authz", Run: runC02})
}

type azRule struct {
	Pattern string   `json:"p"`
	Caps    []string `json:"c"`
	// Boxed: the path block carries an expiration (a time-boxed grant); it
	// stops counting once that instant has passed
	Boxed bool `json:"x,omitempty"`
}

type azToken struct {
	Name     string   `json:"n"`
	Policies []string `json:"p"`
	Root     bool     `json:"r,omitempty"`
	Entity   string   `json:"e,omitempty"`
	CIDR     bool     `json:"c,omitempty"` // bound to 10.0.0.0/8
	Parent   string   `json:"pa,omitempty"` // batch token: lives only as long as this token does
}

type azState struct {
	Policies map[string][]azRule `json:"P"`
	Revoked  map[string]bool     `json:"R"`
	Disabled map[string]bool     `json:"D"`
	Uses     map[string]int      `json:"U"` // remaining uses of use-limited tokens (absent: unlimited)
	// requests in flight (between their first and last check point)
	InFl map[string]*azInFl `json:"I,omitempty"`
}

// azInFl is what a request has observed so far. A request is not atomic:
// it looks its token up, then reads each of the token's policies, then
// decides - each at its own moment between invocation and return. The model
// therefore gives every request one linearization point per check (token;
// each policy; decision), ordered token < policies < decision, all inside the
// request's interval. "Honoured by the very next request" is untouched: a
// request that starts after a change returned has all its points after it.
type azInFl struct {
	Live bool                `json:"l"`
	Pols map[string][]azRule `json:"p,omitempty"`
}

func (s azState) key() string { b, _ := json.Marshal(s); return string(b) }

func (s azState) clone() azState {
	var n azState
	json.Unmarshal([]byte(s.key()), &n)
	if n.Policies == nil {
		n.Policies = map[string][]azRule{}
	}
	if n.Revoked == nil {
		n.Revoked = map[string]bool{}
	}
	if n.Disabled == nil {
		n.Disabled = map[string]bool{}
	}
	if n.Uses == nil {
		n.Uses = map[string]int{}
	}
	if n.InFl == nil {
		n.InFl = map[string]*azInFl{}
	}
	return n
}

type azIn struct {
	Kind   string // request | setpolicy | delpolicy | revoke | disable
	Tok    *azToken
	Path   string // mount-relative: data/a ...
	Op     string // read update delete list
	Remote string
	Policy string
	Rules  []azRule
	Target string
	Maybe  bool // the mutation returned an error: it may or may not have taken effect
	// requests: one history entry per check point
	Req   string // request identity
	Phase string // tok | pol | fin
	Pol   string // phase pol: which policy is read
	// Lapsed: the request was made after the instant at which time-boxed path
	// blocks expire
	Lapsed bool
}

type azOut struct {
	Allowed bool
	Faulted bool
}

func capFor(op string) string {
	switch op {
	case "read":
		return "read"
	case "update":
		return "update"
	case "delete":
		return "delete"
	case "list":
		return "list"
	}
	return op
}

func matchRule(pattern, path string) bool {
	if strings.HasSuffix(pattern, "*") {
		return strings.HasPrefix(path, strings.TrimSuffix(pattern, "*"))
	}
	return pattern == path
}

// azTokenLive: the token-side conditions (existence, revocation, entity,
// bound CIDR), evaluated at the request's token check point.
func azTokenLive(st azState, in azIn) bool {
	t := in.Tok
	if t == nil {
		return false
	}
	if st.Revoked[t.Name] || (t.Entity != "" && st.Disabled[t.Entity]) {
		return false
	}
	if t.Parent != "" && st.Revoked[t.Parent] {
		return false
	}
	if t.CIDR && !strings.HasPrefix(in.Remote, "10.") {
		return false
	}
	return true
}

// azPolicyAllows is the reference authoriser for the non-overlapping
// grammar, over the policy texts the request has read.
func azPolicyAllows(pols map[string][]azRule, in azIn) bool {
	t := in.Tok
	if t.Root {
		return true
	}
	rel := in.Path
	full := "rec/" + rel
	caps := map[string]bool{}
	for _, pn := range t.Policies {
		for _, r := range pols[pn] {
			if r.Boxed && in.Lapsed {
				continue
			}
			if matchRule(r.Pattern, full) {
				for _, c := range r.Caps {
					caps[c] = true
				}
			}
		}
	}
	if caps["deny"] {
		return false
	}
	if !caps[capFor(in.Op)] {
		return false
	}
	if strings.HasPrefix(rel, "admin/") && !caps["sudo"] {
		return false
	}
	return true
}

func azSteps(st azState, in azIn, out azOut) []azState {
	if in.Maybe {
		sure := in
		sure.Maybe = false
		return append([]azState{st}, azSteps(st, sure, out)...)
	}
	switch in.Kind {
	case "setpolicy":
		n := st.clone()
		n.Policies[in.Policy] = in.Rules
		return []azState{n}
	case "delpolicy":
		n := st.clone()
		delete(n.Policies, in.Policy)
		return []azState{n}
	case "revoke":
		n := st.clone()
		n.Revoked[in.Target] = true
		return []azState{n}
	case "disable":
		n := st.clone()
		n.Disabled[in.Target] = true
		return []azState{n}
	}
	if strings.HasPrefix(in.Path, "open/") {
		// declared unauthenticated: the property is an "only if", so both
		// outcomes are acceptable here (a bad token may still be refused)
		return []azState{st}
	}
	switch in.Phase {
	case "tok":
		n := st.clone()
		n.InFl[in.Req] = &azInFl{Live: azTokenLive(st, in)}
		return []azState{n}
	case "pol":
		f := st.InFl[in.Req]
		if f == nil {
			return nil // the token check comes first
		}
		n := st.clone()
		nf := n.InFl[in.Req]
		if nf.Pols == nil {
			nf.Pols = map[string][]azRule{}
		}
		if _, dup := nf.Pols[in.Pol]; dup {
			return nil
		}
		nf.Pols[in.Pol] = st.Policies[in.Pol]
		if nf.Pols[in.Pol] == nil {
			nf.Pols[in.Pol] = []azRule{}
		}
		return []azState{n}
	}
	// phase fin: the decision
	f := st.InFl[in.Req]
	if f == nil {
		return nil
	}
	if in.Tok != nil && len(f.Pols) != len(uniq(in.Tok.Policies)) {
		return nil // every policy is read before the decision
	}
	base := st.clone()
	delete(base.InFl, in.Req)
	if !f.Live {
		if out.Allowed {
			return nil
		}
		return []azState{base}
	}
	// a live token: use limit and policies
	t := in.Tok
	if n, limited := st.Uses[t.Name]; limited && n <= 0 {
		if out.Allowed {
			return nil
		}
		return []azState{base}
	}
	used := base
	if _, limited := st.Uses[t.Name]; limited {
		used = base.clone()
		used.Uses[t.Name]--
	}
	allowed := azPolicyAllows(f.Pols, in)
	if out.Faulted {
		// an injected storage error may turn an allowed request into a
		// refused one, never the other way round
		if out.Allowed && !allowed {
			return nil
		}
		if used.key() != base.key() {
			return []azState{base, used} // the use may or may not have been consumed
		}
		return []azState{base}
	}
	if out.Allowed && !allowed {
		return nil
	}
	if !out.Allowed && allowed {
		// acceptable only if a token-side condition turned false after the
		// token check point (the entity is looked at after the token, the
		// token again when its use is counted): revocation and disabling
		// are monotone, so "false by now" is the test
		if !azTokenLive(st, in) {
			return []azState{used, base}
		}
		return nil
	}
	return []azState{used}
}

func uniq(xs []string) []string {
	seen := map[string]bool{}
	var out []string
	for _, x := range xs {
		if !seen[x] {
			seen[x] = true
			out = append(out, x)
		}
	}
	return out
}

func runC02(rc *RunCtx) {
	s, tp := rc.S, rc.S.Tape
	opts := CoreOpts{DisableCache: tp.Pick(2) == 1, Plain: tp.Pick(3) == 2, DisableSSC: tp.Pick(3) == 2}
	faulty := tp.Pick(4) == 3
	rc.Cfg("cache_off", opts.DisableCache)
	rc.Cfg("plain_disk", opts.Plain)
	rc.Cfg("ssc", !opts.DisableSSC)
	rc.Cfg("faulty", faulty)
	disk := NewDisk(s)
	// second scheduling point per storage operation (effect vs. continuation) in a third of the runs
	disk.PostGate = tp.Pick(3) == 2
	rc.Cfg("post_gate", disk.PostGate)
	rec := NewRecorder(s)
	opts.Logical = map[string]logical.Factory{"rec": RecFactory(rec, false)}
	opts.Credential = map[string]logical.Factory{"rec": RecFactory(rec, true)}
	h, err := BootCore(disk, opts)
	if err != nil {
		panic(err)
	}
	defer func() { h.Shutdown() }()
	must(h.Mount("rec", "rec", nil))
	must(h.EnableAuth("rec", "rec"))
	paths := []string{"data/a", "data/b", "data/sub/k1", "data/sub/k2", "data/other", "admin/x", "open/o"}
	for _, p := range paths {
		_, err := h.RootWrite("rec/"+p, map[string]any{"value": "v-" + p})
		must(err)
	}
	mountPrefix := ""
	for _, k := range disk.RawKeys("logical/") {
		if strings.HasSuffix(k, "/data/data/a") {
			mountPrefix = strings.TrimSuffix(k, "data/data/a")
		}
	}
	patterns := []string{"rec/data/a", "rec/data/b", "rec/data/sub/*", "rec/admin/x"}
	capSets := [][]string{{"read"}, {"read", "update"}, {"read", "update", "delete", "list"}, {"deny"}, {"update", "sudo"}, {"read", "sudo"}, {"list"}}
	// time-boxed path blocks expire three simulated minutes from now: after the
	// race, before the sequential tail
	boxT := time.Now().Add(3 * time.Minute).UTC().Format(time.RFC3339)
	lapsed := false
	hcl := func(rules []azRule) string {
		var sb strings.Builder
		for _, r := range rules {
			if r.Boxed {
				fmt.Fprintf(&sb, "path %q { capabilities = [%s] expiration = %q }\n", r.Pattern, `"`+strings.Join(r.Caps, `","`)+`"`, boxT)
				continue
			}
			fmt.Fprintf(&sb, "path %q { capabilities = [%s] }\n", r.Pattern, `"`+strings.Join(r.Caps, `","`)+`"`)
		}
		if sb.Len() == 0 {
			sb.WriteString("# empty\n")
		}
		return sb.String()
	}
	genRules := func() []azRule {
		var rules []azRule
		for _, p := range patterns {
			if tp.Pick(2) == 0 {
				rules = append(rules, azRule{Pattern: p, Caps: capSets[tp.Pick(len(capSets))], Boxed: tp.Pick(4) == 0})
			}
		}
		return rules
	}
	state := azState{}.clone()
	nPol := 3 + tp.Pick(3)
	var polNames []string
	for i := 0; i < nPol; i++ {
		name := fmt.Sprintf("pol%d", i)
		rules := genRules()
		must(h.Policy(name, hcl(rules)))
		state.Policies[name] = rules
		polNames = append(polNames, name)
	}
	_, err = h.RootWrite("auth/token/roles/cidr", map[string]any{"allowed_policies": strings.Join(polNames, ","), "token_bound_cidrs": "10.0.0.0/8"})
	must(err)
	// tokens
	type liveTok struct {
		az  *azToken
		id  string
		raw string // what the client presents (may be a mutated form)
	}
	var toks []*liveTok
	pickPols := func() []string {
		var out []string
		for _, p := range polNames {
			if tp.Pick(3) == 0 {
				out = append(out, p)
			}
		}
		if len(out) == 0 {
			out = []string{polNames[tp.Pick(len(polNames))]}
		}
		return out
	}
	mk := func(name string, data map[string]any, path string) *liveTok {
		pols := pickPols()
		data["policies"] = pols
		data["no_default_policy"] = true
		if _, ok := data["ttl"]; !ok {
			data["ttl"] = "1h"
		}
		resp, err := h.Do("setup", Req{Op: logical.UpdateOperation, Path: path, Token: h.Root, Data: data})
		if err != nil || resp == nil || resp.Auth == nil {
			panic(fmt.Sprint("token create: ", err, resp))
		}
		t := &liveTok{az: &azToken{Name: name, Policies: pols}, id: resp.Auth.ClientToken, raw: resp.Auth.ClientToken}
		toks = append(toks, t)
		return t
	}
	mk("t-plain", map[string]any{}, "auth/token/create")
	mk("t-plain2", map[string]any{}, "auth/token/create")
	// t-victim is revoked by a mutator; next to its grammar policies it may
	// create tokens, and has created a batch token, which is only as alive as
	// its parent (a batch token has no entry of its own to revoke)
	if _, err := h.RootWrite("sys/policies/acl/mint", map[string]any{"policy": `path "auth/token/create" { capabilities = ["update"] }`}); err != nil {
		panic(err)
	}
	victim := mk("t-victim", map[string]any{}, "auth/token/create")
	{
		r, err := h.Do("setup", Req{Op: logical.UpdateOperation, Path: "auth/token/create", Token: h.Root, Data: map[string]any{"id": "", "policies": append(append([]string{}, victim.az.Policies...), "mint"), "no_default_policy": true, "ttl": "1h"}})
		if err != nil || r == nil || r.Auth == nil {
			panic(fmt.Sprint("victim token: ", err, r))
		}
		victim.id, victim.raw = r.Auth.ClientToken, r.Auth.ClientToken
		br, err := h.Do("setup", Req{Op: logical.UpdateOperation, Path: "auth/token/create", Token: victim.id, Data: map[string]any{"type": "batch", "policies": victim.az.Policies, "no_default_policy": true, "ttl": "1h"}})
		if err != nil || br == nil || br.Auth == nil {
			panic(fmt.Sprint("batch child of victim: ", err, br))
		}
		toks = append(toks, &liveTok{az: &azToken{Name: "t-batch-of-victim", Policies: victim.az.Policies, Parent: "t-victim"}, id: br.Auth.ClientToken, raw: br.Auth.ClientToken})
	}
	short := mk("t-short", map[string]any{"ttl": "30s"}, "auth/token/create")
	// (not part of the race: used by the renewal epilogue)
	renewTok := mk("t-renew", map[string]any{"ttl": "20m"}, "auth/token/create")
	toks = toks[:len(toks)-1]
	renewCreated := time.Now()
	if !faulty {
		lim := mk("t-limited", map[string]any{"num_uses": 2 + tp.Pick(2)}, "auth/token/create")
		state.Uses[lim.az.Name] = 0
		r, _ := h.Do("setup", Req{Op: logical.UpdateOperation, Path: "auth/token/lookup", Token: h.Root, Data: map[string]any{"token": lim.id}})
		state.Uses[lim.az.Name] = toInt(r.Data["num_uses"])
	}
	mk("t-batch", map[string]any{"type": "batch"}, "auth/token/create")
	cidr := mk("t-cidr", map[string]any{}, "auth/token/create/cidr")
	cidr.az.CIDR = true
	toks = append(toks, &liveTok{az: &azToken{Name: "t-root", Root: true}, id: h.Root, raw: h.Root})
	// a token with an entity (login through the recording auth method)
	entPols := pickPols()
	lr, err := h.Do("setup", Req{Op: logical.UpdateOperation, Path: "auth/rec/login", Data: map[string]any{"policies": strings.Join(entPols, ","), "alias": "alice", "ttl": 3600}})
	entityID := ""
	if err == nil && lr != nil && lr.Auth != nil {
		entityID = lr.Auth.EntityID
		// login tokens carry the default policy too; the grammar's paths are not in it
		toks = append(toks, &liveTok{az: &azToken{Name: "t-entity", Policies: entPols, Entity: entityID}, id: lr.Auth.ClientToken, raw: lr.Auth.ClientToken})
	}
	// junk credentials: never live
	plain := toks[0]
	mut := []byte(plain.id)
	mut[len(mut)-3] ^= 1
	junk := []*liveTok{
		{az: nil, raw: ""},
		{az: nil, raw: "hvs.notatoken"},
		{az: nil, raw: string(mut)},
		{az: nil, raw: "s." + strings.Repeat("A", 24)},
	}
	// expire the short token sequentially (before the race), so its state is unambiguous
	s.Advance(40 * time.Second)
	state.Revoked[short.az.Name] = true

	// ---- the race ----
	evt := 0
	var ops []porcupine.Operation
	var hist []string
	var denied []string // request ids of denied requests
	record := func(client int, in azIn, out azOut, call, ret int) {
		ops = append(ops, porcupine.Operation{ClientId: client, Input: in, Call: int64(call), Output: out, Return: int64(ret)})
		tn := "-"
		if in.Tok != nil {
			tn = in.Tok.Name
		}
		hist = append(hist, fmt.Sprintf("[%d,%d] c%d %s %s %s %s%s%s -> %+v", call, ret, client, in.Kind, tn, in.Op, in.Path, in.Policy, in.Target, out))
	}
	// a request enters the history once per check point (see azInFl)
	recordRequest := func(client int, in azIn, out azOut, call, ret int) {
		in.Req = fmt.Sprintf("q%d", call)
		tn := "-"
		if in.Tok != nil {
			tn = in.Tok.Name
		}
		hist = append(hist, fmt.Sprintf("[%d,%d] c%d request %s %s %s -> %+v", call, ret, client, tn, in.Op, in.Path, out))
		add := func(phase, pol string) {
			x := in
			x.Phase, x.Pol = phase, pol
			ops = append(ops, porcupine.Operation{ClientId: client, Input: x, Call: int64(call), Output: out, Return: int64(ret)})
		}
		add("tok", "")
		if in.Tok != nil {
			for _, pn := range uniq(in.Tok.Policies) {
				add("pol", pn)
			}
		}
		add("fin", "")
	}
	stamp := func() int {
		s.mu.Lock()
		defer s.mu.Unlock()
		evt++
		return evt
	}
	nClients := 2 + tp.Pick(2)
	nMut := 1 + tp.Pick(2)
	type reqPlan struct {
		tok    *liveTok
		path   string
		op     string
		remote string
	}
	opsOf := func(p string) logical.Operation {
		switch p {
		case "read":
			return logical.ReadOperation
		case "update":
			return logical.UpdateOperation
		case "delete":
			return logical.DeleteOperation
		}
		return logical.ListOperation
	}
	doReq := func(c int, tag string, p reqPlan) {
		call := stamp()
		before := len(rec.Snapshot())
		faultsBefore := s.Faults["err-na"]
		r := Req{Op: opsOf(p.op), Path: "rec/" + p.path, Token: p.tok.raw, Remote: p.remote}
		if p.op == "update" {
			r.Data = map[string]any{"value": "v-" + p.path}
		}
		resp, err := h.Do(tag, r)
		_ = resp
		_ = err
		id := ""
		allowed := false
		for _, e := range rec.Snapshot()[before:] {
			if strings.HasPrefix(e.ReqID, tag+"-") {
				id = e.ReqID
				if e.Kind == "handler" {
					allowed = true
				}
			}
		}
		ret := stamp()
		in := azIn{Kind: "request", Tok: p.tok.az, Path: p.path, Op: p.op, Remote: p.remote, Lapsed: lapsed}
		s.mu.Lock()
		faulted := s.Faults["err-na"] > faultsBefore
		recordRequest(c, in, azOut{Allowed: allowed, Faulted: faulted}, call, ret)
		if !allowed && id != "" {
			denied = append(denied, id)
		}
		s.mu.Unlock()
	}
	total := 0
	// cold start in a third of the runs: the race begins on a freshly restarted
	// node, so the first request of every token has to load its policies and
	// token entry from storage (policy LRU, token caches and physical cache are
	// empty) while the mutators change them
	if cold := tp.Pick(2) == 1; cold {
		rc.Cfg("cold_start", true)
		old := h
		old.Shutdown()
		nh, err := Reboot(disk, old)
		if err != nil {
			panic(err)
		}
		h = nh
		s.SetControlled()
		s.Drain(5*time.Second, time.Second)
		s.PassThrough()
	}
	if faulty {
		s.SetFaults(25, 3, FaultErrNA)
	}
	s.SwarmFreeze()
	rc.Cfg("long_stall_permille", s.FreezePermille)
	rc.Cfg("yield_on_release", s.YieldOnRelease)
	s.SetControlled()
	for c := 0; c < nClients; c++ {
		c := c
		var plan []reqPlan
		n := 2 + tp.Pick(4)
		if total+n > 14 {
			n = 14 - total
		}
		total += n
		for j := 0; j < n; j++ {
			var t *liveTok
			if tp.Pick(6) == 0 {
				t = junk[tp.Pick(len(junk))]
			} else {
				t = toks[tp.Pick(len(toks))]
			}
			p := reqPlan{tok: t, path: paths[tp.Pick(len(paths))], op: []string{"read", "read", "update", "delete", "list"}[tp.Pick(5)], remote: "127.0.0.1"}
			if p.op == "list" {
				p.path = "data/sub/"
			}
			if p.op == "delete" {
				p.op = "read" // keep the data set stable (existence decides create vs update)
			}
			if tp.Pick(4) == 0 {
				p.remote = "10.1.2.3"
			}
			plan = append(plan, p)
		}
		tag := fmt.Sprintf("c%d", c)
		s.Go(tag, func() {
			for _, p := range plan {
				doReq(c, tag, p)
			}
		})
	}
	for m := 0; m < nMut; m++ {
		m := m
		type mutPlan struct {
			kind, name string
			rules      []azRule
		}
		var plan []mutPlan
		for j := 0; j < 1+tp.Pick(3); j++ {
			switch tp.Pick(5) {
			case 0, 1:
				plan = append(plan, mutPlan{kind: "setpolicy", name: polNames[tp.Pick(len(polNames))], rules: genRules()})
			case 2:
				plan = append(plan, mutPlan{kind: "delpolicy", name: polNames[tp.Pick(len(polNames))]})
			case 3:
				plan = append(plan, mutPlan{kind: "revoke", name: "t-victim"})
			default:
				if entityID != "" {
					plan = append(plan, mutPlan{kind: "disable", name: entityID})
				}
			}
		}
		tag := fmt.Sprintf("m%d", m)
		s.Go(tag, func() {
			for _, p := range plan {
				call := stamp()
				var err error
				var resp *logical.Response
				switch p.kind {
				case "setpolicy":
					resp, err = h.Do(tag, Req{Op: logical.UpdateOperation, Path: "sys/policies/acl/" + p.name, Token: h.Root, Data: map[string]any{"policy": hcl(p.rules)}})
				case "delpolicy":
					resp, err = h.Do(tag, Req{Op: logical.DeleteOperation, Path: "sys/policies/acl/" + p.name, Token: h.Root})
				case "revoke":
					var id string
					for _, t := range toks {
						if t.az != nil && t.az.Name == p.name {
							id = t.id
						}
					}
					resp, err = h.Do(tag, Req{Op: logical.UpdateOperation, Path: "auth/token/revoke", Token: h.Root, Data: map[string]any{"token": id}})
				case "disable":
					resp, err = h.Do(tag, Req{Op: logical.UpdateOperation, Path: "identity/entity/id/" + p.name, Token: h.Root, Data: map[string]any{"disabled": true}})
				}
				ret := stamp()
				failed := err != nil || (resp != nil && resp.IsError())
				s.mu.Lock()
				record(100+m, azIn{Kind: p.kind, Policy: p.name, Rules: p.rules, Target: p.name, Maybe: failed}, azOut{}, call, ret)
				s.mu.Unlock()
			}
		})
	}
	s.Run()
	s.SetFaults(0, 0)
	s.PassThrough()
	if s.Trunc {
		return
	}
	// sequential tail: after every change has been acknowledged each token
	// makes a few more requests; they pin the end state (a stale cache entry
	// put back by a request that raced with a change shows here at the latest)
	// ... and the time-boxed path blocks have lapsed by then (the policies that
	// carry them may sit in the policy cache, parsed long before)
	s.Advance(4 * time.Minute)
	lapsed = true
	for _, t := range toks {
		off := tp.Pick(len(paths))
		for j := 0; j < 4; j++ {
			doReq(90, "fin", reqPlan{tok: t, path: paths[(off+2*j)%len(paths)], op: []string{"read", "update"}[tp.Pick(2)], remote: "127.0.0.1"})
		}
	}
	// (3) denied requests left no trace under the mount
	deniedSet := map[string]bool{}
	for _, id := range denied {
		deniedSet[id] = true
	}
	for _, m := range disk.Log {
		if !deniedSet[m.ReqID] {
			continue
		}
		for _, w := range m.Writes {
			if mountPrefix != "" && strings.HasPrefix(w.Key, mountPrefix) {
				s.Violate("C02", "denied-request-changed-backend-storage", nil, "request %s was denied but wrote %q; history %v", m.ReqID, w.Key, hist)
				return
			}
		}
	}
	// (1) linearizability
	nd := porcupine.NondeterministicModel{
		Init: func() []any { return []any{state.key()} },
		Step: func(st, in, out any) []any {
			var cur azState
			json.Unmarshal([]byte(st.(string)), &cur)
			cur = cur.clone()
			var res []any
			for _, n := range azSteps(cur, in.(azIn), out.(azOut)) {
				res = append(res, n.key())
			}
			return res
		},
		Equal: func(a, b any) bool { return a.(string) == b.(string) },
	}
	sort.SliceStable(ops, func(i, j int) bool { return ops[i].Call < ops[j].Call })
	switch checkBounded(nd, ops, 120000) {
	case porcupine.Illegal:
		// classify: which single request cannot be explained?
		s.Violate("C02", "authorisation-history-not-linearizable", map[string]any{"faulty": s.Faults["err-na"] > 0},
			"no linearization of policy/token changes explains the observed allow/deny outcomes: %v", hist)
	case porcupine.Unknown:
		s.Probe("porcupine_unknown")
	default:
		s.Probe("porcupine_ok")
	}
	nAllowed := 0
	for _, o := range ops {
		if in := o.Input.(azIn); in.Kind == "request" && in.Phase == "fin" && o.Output.(azOut).Allowed {
			nAllowed++
		}
	}
	s.ProbeN("requests_allowed", nAllowed)
	s.ProbeN("requests_total", total)
	// ---- epilogue: "unexpired" under a failed renewal. The token's lease
	// write is made to fail during a renewal; a renewal that returned an error
	// extends nothing: once the ORIGINAL lifetime has passed the token is
	// refused. (A renewal that succeeded is judged against the lifetime it
	// was told.)
	if s.Viol == nil && tp.Pick(2) == 0 {
		failRenew := tp.Pick(3) != 0
		if failRenew {
			disk.FailPrefix, disk.FailOps, disk.FailNth = "sys/expire/id/auth/token/create", "put tx-put", 1
		}
		rr, rerr := h.Do("renew", Req{Op: logical.UpdateOperation, Path: "auth/token/renew", Token: h.Root, Data: map[string]any{"token": renewTok.id, "increment": "4h"}})
		fired := disk.FailHits > 0
		disk.FailNth = 0
		renewed := rerr == nil && rr != nil && !rr.IsError() && rr.Auth != nil
		life := 20 * time.Minute
		if renewed {
			life = time.Since(renewCreated) + rr.Auth.TTL
		}
		if fired {
			s.Faults["err-na"]++
			s.Probe("renewal_with_failed_lease_write")
		}
		if wait := time.Until(renewCreated.Add(life)) + 30*time.Second; wait > 0 {
			s.Advance(wait)
		}
		before := len(rec.Snapshot())
		resp, err := h.Do("late", Req{Op: logical.ReadOperation, Path: "rec/data/a", Token: renewTok.id})
		reached := false
		for _, e := range rec.Snapshot()[before:] {
			if e.Kind == "handler" {
				reached = true
			}
		}
		ok := err == nil && resp != nil && !resp.IsError()
		if ok || reached {
			s.Violate("C02", "expired-token-accepted", map[string]any{"renewal_failed": !renewed, "lease_write_failed": fired},
				"token t-renew (ttl 20m; renewal returned success=%v, injected lease-write failure=%v) was accepted %s after its creation, its lifetime was %s (handler reached: %v)", renewed, fired, time.Since(renewCreated).Round(time.Second), life.Round(time.Second), reached)
			return
		}
		// positive control: a token with a longer life is still served
		s.Probe("expiry_epilogue")
	}
	rc.Res.Sample = map[string]any{"history": tail(hist, 24)}
	rc.Res.StateSig = fmt.Sprintf("%d ops/%d allowed", len(ops), nAllowed)
}
