package verifsim

import (
	"math/rand/v2"
)

// Tape is the single source of every choice of a run: configuration,
// generated operations, scheduler picks and fault placement. In search mode
// it is produced lazily from a PRNG seeded by (VERIF_SEED, run index) and
// recorded; in replay mode it is read back (reads past the end yield 0).
// By convention 0 is always the simplest alternative, so that shrinking
// (delete / zero / lower) simplifies the run.
type Tape struct {
	Rec    []uint32
	pos    int
	rng    *rand.Rand
	replay bool
}

func NewTape(seed uint64) *Tape {
	return &Tape{rng: rand.New(rand.NewPCG(seed, seed^0x9e3779b97f4a7c15))}
}

func ReplayTape(rec []uint32) *Tape {
	return &Tape{Rec: append([]uint32(nil), rec...), replay: true}
}

// Draw returns a value in [0,n).
func (t *Tape) Draw(n int) int {
	if n <= 1 {
		// still consume a cell so that tape positions do not depend on n
		n = 1
	}
	var v uint32
	if t.replay {
		if t.pos < len(t.Rec) {
			v = t.Rec[t.pos] % uint32(n)
		}
		t.pos++
		return int(v)
	}
	v = uint32(t.rng.IntN(n))
	t.Rec = append(t.Rec, v)
	t.pos++
	return int(v)
}

// Chance is true with probability about permille/1000; a tape value of 0 is false.
func (t *Tape) Chance(permille int) bool {
	if permille <= 0 {
		t.Draw(1)
		return false
	}
	return t.Draw(1000) >= 1000-permille
}

// Range returns a value in [lo,hi].
func (t *Tape) Range(lo, hi int) int {
	if hi <= lo {
		t.Draw(1)
		return lo
	}
	return lo + t.Draw(hi-lo+1)
}

// Pick returns an index in [0,n) (alias of Draw, for readability).
func (t *Tape) Pick(n int) int { return t.Draw(n) }

// Pos is the number of cells consumed so far.
func (t *Tape) Pos() int { return t.pos }

// Used returns the consumed prefix of the tape.
func (t *Tape) Used() []uint32 {
	n := t.pos
	if n > len(t.Rec) {
		n = len(t.Rec)
	}
	return append([]uint32(nil), t.Rec[:n]...)
}

// Sub derives an independent deterministic stream (e.g. for crypto/rand)
// without consuming tape cells after the first.
func (t *Tape) SubSeed() uint64 {
	a := uint64(t.Draw(1 << 30))
	b := uint64(t.Draw(1 << 30))
	return a<<32 ^ b
}
