package verifsim

import (
	"fmt"
	"sort"
	"strings"
	"time"

	"github.com/openbao/openbao/v2/internal/vault"
	"github.com/openbao/openbao/sdk/v2/logical"
)

// C05 — lifetimes are bounded by max TTL; every stored lease is tracked to
// expiry.
//
// Histories of issue / renew(increment) / token create / login / token renew
// / lookup / revoke / mount tune, with jumps of the simulated clock between
// steps (seconds to months), restarts of a fresh Core on the durable state,
// and backend revoke failures that drive leases into the irrevocable state.
//
// Oracles. (1) Bound: an independent model computes
// effMax = min+(system or mount max, backend / role max, explicit max); every
// response and every persisted lease entry must satisfy
// expire <= issue + effMax (+1 s: times are truncated to seconds); periodic
// tokens: each grant <= period, and expire <= issue + explicit max when set;
// renewing an expired, non-renewable or irrevocable lease fails.
// (2) Tracking: at quiescence the lease ids in storage equal the ids tracked
// by the expiration manager (pending U non-expiring U irrevocable), also
// after every restart. (3) Progress: once the clock has passed the last
// expiry plus the retry budget, each lease is gone with a backend revoke
// recorded, or is marked irrevocable.

func init() {
	register(&Scenario{Prop: "C05", Name: "ttl-bounds", Run: runC05})
}

func minPos(vals ...time.Duration) time.Duration {
	var m time.Duration
	for _, v := range vals {
		if v > 0 && (m == 0 || v < m) {
			m = v
		}
	}
	return m
}

type c05Lease struct {
	kind        string // secret | token
	id          string // lease id or token
	accessor    string
	issue       time.Time
	backendMax  time.Duration
	explicitMax time.Duration
	period      time.Duration
	mount       string // "rec" | "token" | "authrec"
	renewable   bool
	expire      time.Time // as last told to the client
	secID       string
	dead        bool
	limit       time.Time // issue + effective max as of the last grant
	ns          string    // namespace the lease lives in ("" = root)
	role        string    // token role it was created against
}

func runC05(rc *RunCtx) {
	s, tp := rc.S, rc.S.Tape
	durs := []time.Duration{0, 30 * time.Second, 10 * time.Minute, 2 * time.Hour, 48 * time.Hour, 1000 * time.Hour}
	sysDefault := []time.Duration{0, 20 * time.Minute, 24 * time.Hour}[tp.Pick(3)]
	sysMax := []time.Duration{0, 12 * time.Hour, 24 * time.Hour * 40}[tp.Pick(3)]
	if sysMax > 0 && sysDefault > sysMax {
		sysDefault = sysMax
	}
	if sysMax > 0 && sysMax < 768*time.Hour && sysDefault == 0 {
		sysDefault = sysMax / 2 // the built-in default (32 days) would exceed the configured maximum
	}
	opts := CoreOpts{DisableCache: tp.Pick(2) == 1, Plain: tp.Pick(3) == 2, DefaultLeaseTTL: sysDefault, MaxLeaseTTL: sysMax, RevokeRetryBase: time.Second, ExpWorkers: 2}
	rc.Cfg("sys_default", sysDefault.String())
	rc.Cfg("sys_max", sysMax.String())
	effSysMax := sysMax
	if effSysMax == 0 {
		effSysMax = 768 * time.Hour // documented system default maximum (32 days)
	}
	disk := NewDisk(s)
	rec := NewRecorder(s)
	opts.Logical = map[string]logical.Factory{"rec": RecFactory(rec, false)}
	opts.Credential = map[string]logical.Factory{"rec": RecFactory(rec, true)}
	h, err := BootCore(disk, opts)
	if err != nil {
		panic(err)
	}
	defer func() { h.Shutdown() }()
	must(h.Mount("rec", "rec", nil))
	must(h.EnableAuth("rec", "rec"))
	must(h.Policy("p", c04Policy))
	// a namespace (a third of the runs plain, a third with its own seal) with
	// the same engines: its leases live under namespaces/<uuid>/sys/expire/
	nsMode := []string{"none", "plain", "sealable"}[tp.Pick(3)]
	rc.Cfg("namespace", nsMode)
	nsKey := ""
	nsSealed := false
	if nsMode != "none" {
		var d map[string]any
		if nsMode == "sealable" {
			d = map[string]any{"seal": `seal "shamir" { shares = 1  threshold = 1 }`}
		}
		r, err := h.Do("setup", Req{Op: logical.UpdateOperation, Path: "sys/namespaces/n1", Token: h.Root, Data: d})
		if err != nil || (r != nil && r.IsError()) {
			panic(fmt.Sprint("namespace: ", err, r))
		}
		if nsMode == "sealable" {
			switch ks := r.Data["key_shares"].(type) {
			case []string:
				nsKey = ks[0]
			case []any:
				nsKey = fmt.Sprint(ks[0])
			}
			h.Do("setup", Req{Op: logical.UpdateOperation, Path: "sys/namespaces/n1/unseal", Token: h.Root, Data: map[string]any{"key": nsKey}})
		}
		for _, rq := range []Req{
			{Op: logical.UpdateOperation, Path: "sys/mounts/rec", Data: map[string]any{"type": "rec"}},
			{Op: logical.UpdateOperation, Path: "sys/auth/rec", Data: map[string]any{"type": "rec"}},
			{Op: logical.UpdateOperation, Path: "sys/policies/acl/p", Data: map[string]any{"policy": c04Policy}},
		} {
			rq.Token, rq.NS = h.Root, "n1/"
			if r, err := h.Do("setup", rq); err != nil || (r != nil && r.IsError()) {
				panic(fmt.Sprint("namespace setup: ", err, r))
			}
		}
	}
	pickNS := func() string {
		if nsMode != "none" && !nsSealed && tp.Pick(3) == 0 {
			return "n1/"
		}
		return ""
	}
	// token roles: unconstrained, with an explicit max, periodic
	type tokRole struct {
		name        string
		explicitMax time.Duration
		period      time.Duration
	}
	tokenRoles := []tokRole{{name: "ra"}, {name: "rb", explicitMax: 2 * time.Hour}, {name: "rc", period: time.Hour}}
	for _, rl := range tokenRoles {
		d := map[string]any{"allowed_policies": "p,default", "renewable": true}
		if rl.explicitMax > 0 {
			d["token_explicit_max_ttl"] = rl.explicitMax.String()
		}
		if rl.period > 0 {
			d["token_period"] = rl.period.String()
		}
		if _, err := h.RootWrite("auth/token/roles/"+rl.name, d); err != nil {
			panic(err)
		}
	}
	mountMax := map[string]time.Duration{"rec": 0, "authrec": 0, "token": 0}
	sysMaxFor := func(m string) time.Duration {
		if v := mountMax[m]; v > 0 {
			return v
		}
		return effSysMax
	}
	var leases []*c05Lease
	var hist []string
	note := func(f string, a ...any) {
		l := fmt.Sprintf("[%s] ", time.Since(s.SimStart).Round(time.Second)) + fmt.Sprintf(f, a...)
		hist = append(hist, l)
		s.Note("%s", l)
	}
	viol := func(class string, sig map[string]any, f string, a ...any) {
		s.Violate("C05", class, sig, "%s; history: %v", fmt.Sprintf(f, a...), tail(hist, 20))
	}
	const slack = time.Second + 500*time.Millisecond
	// check a grant: ttl told to the client at `now`
	checkGrant := func(l *c05Lease, ttl time.Duration, what string) bool {
		now := time.Now()
		exp := now.Add(ttl)
		l.expire = exp
		sig := map[string]any{"kind": l.kind, "op": what, "periodic": l.period > 0}
		if l.role != "" {
			sig["token_role"] = l.role
		}
		if l.period > 0 {
			if ttl > l.period+slack {
				viol("ttl-exceeds-period", sig, "%s of %s granted ttl %s, period is %s", what, l.id, ttl, l.period)
				return false
			}
			if l.explicitMax > 0 && exp.After(l.issue.Add(l.explicitMax).Add(slack)) {
				viol("expiry-exceeds-max", sig, "%s of periodic %s: expiry %s beyond issue+explicit_max %s", what, l.id, exp.Sub(l.issue), l.explicitMax)
				return false
			}
			return true
		}
		eff := minPos(sysMaxFor(l.mount), l.backendMax, l.explicitMax)
		l.limit = l.issue.Add(eff)
		if exp.After(l.issue.Add(eff).Add(slack)) {
			viol("expiry-exceeds-max", sig, "%s of %s %s: expiry is issue+%s, effective max is %s (mount/system %s, backend %s, explicit %s)",
				what, l.kind, l.id, exp.Sub(l.issue).Round(time.Second), eff, sysMaxFor(l.mount), l.backendMax, l.explicitMax)
			return false
		}
		return true
	}
	storedKey := func(l *c05Lease) string {
		if l.kind == "secret" && l.ns == "" {
			return "sys/expire/id/" + l.id
		}
		if l.kind == "secret" && nsMode == "plain" {
			// (a namespace without its own seal is encrypted by the root barrier)
			for _, k := range disk.RawKeys("namespaces/") {
				if strings.HasSuffix(k, "/sys/expire/id/"+l.id) {
					return k
				}
			}
			return "namespaces/-/sys/expire/id/" + l.id // gone
		}
		return ""
	}
	// persisted entries obey the same bound
	checkStored := func() bool {
		for _, l := range leases {
			if l.dead || l.kind != "secret" {
				continue
			}
			issue, expire, irr, _, ok := vault.VerifStoredLease(h.Core, storedKey(l))
			if !ok || irr {
				continue
			}
			// the bound that was in force when the lease was last granted
			// (a later mount tune does not shorten existing leases)
			if !l.limit.IsZero() && expire.After(l.limit.Add(slack)) {
				viol("stored-expiry-exceeds-max", map[string]any{"kind": l.kind}, "stored lease %s expires at issue+%s, the effective max at its last grant was %s", l.id, expire.Sub(issue), l.limit.Sub(l.issue))
				return false
			}
			if issue.Sub(l.issue) > slack || l.issue.Sub(issue) > slack {
				viol("stored-issue-time-moved", map[string]any{"kind": l.kind}, "stored lease %s has issue time %s, it was issued at %s", l.id, issue, l.issue)
				return false
			}
		}
		return true
	}
	nsLeasesSeen := 0
	restoreFaultDuringUnseal := false
	restoreFaultFired := false
	recheck := false
	var checkTrackingFn func(string) bool
	checkTracking := func(phase string) bool {
		s.SetControlled()
		s.Drain(10*time.Second, 2*time.Second)
		s.PassThrough()
		pend, nonexp, irr, restoring := vault.VerifTrackedLeases(h.Core)
		if restoring {
			return true
		}
		if h.Core.Sealed() {
			// the node gave up (a failed lease restore shuts it down): it is not an
			// active node with untracked leases; the history goes on against a sealed node
			s.Probe("tracking_checked_on_sealed_node")
			return true
		}
		tracked := map[string]bool{}
		for _, x := range append(append(pend, nonexp...), irr...) {
			tracked[x] = true
		}
		var missing []string
		for _, k := range disk.RawKeys("sys/expire/id/") {
			id := strings.TrimPrefix(k, "sys/expire/id/")
			if !tracked[id] {
				missing = append(missing, id)
			}
		}
		// leases of namespaces live under namespaces/<uuid>/sys/expire/id/; those
		// of a sealed namespace are legitimately not loaded
		if !nsSealed {
			for _, k := range disk.RawKeys("namespaces/") {
				if i := strings.Index(k, "/sys/expire/id/"); i > 0 && strings.Count(k[:i], "/") == 1 {
					id := k[i+len("/sys/expire/id/"):]
					if !tracked[id] {
						missing = append(missing, k)
					}
					nsLeasesSeen++
				}
			}
		}
		if len(missing) > 0 {
			// a node whose lease restore failed shuts itself down from a goroutine:
			// give it a moment before judging "active with untracked leases"
			if !recheck {
				recheck = true
				s.SetControlled()
				s.Drain(30*time.Second, 5*time.Second)
				s.PassThrough()
				ok := checkTrackingFn(phase)
				recheck = false
				return ok
			}
			viol("stored-lease-not-tracked", map[string]any{"phase": phase, "restore_read_fault": restoreFaultFired, "fault_before_unseal_returned": restoreFaultDuringUnseal}, "%s: leases in storage but not tracked for expiry: %v", phase, missing)
			return false
		}
		return true
	}
	checkTrackingFn = checkTracking
	secs := func(d time.Duration) int { return int(d / time.Second) }
	nOps := 6 + tp.Pick(10)
	if rc.Thorough() {
		nOps = 6 + tp.Pick(34)
	}
	live := func(kind string) []*c05Lease {
		var out []*c05Lease
		for _, l := range leases {
			if !l.dead && l.kind == kind {
				out = append(out, l)
			}
		}
		return out
	}
	// unseal of the sealable namespace; faulty: the first attempt meets a storage
	// read error on one of the namespace's stored leases (restoring them is part
	// of the unseal), the operator then unseals again. false: a violation was raised.
	nsUnseal := func(faulty bool) bool {
		nsLeaseKeys := 0
		nsLeasePrefix := ""
		for _, k := range disk.RawKeys("namespaces/") {
			if i := strings.Index(k, "/sys/expire/id/"); i > 0 {
				nsLeaseKeys++
				nsLeasePrefix = k[:i+len("/sys/expire/id/")]
			}
		}
		if nsLeaseKeys > 0 && faulty {
			vault.VerifPurgeCache(h.Core)
			disk.FailPrefix, disk.FailOps = nsLeasePrefix, "get tx-get"
			nth := 1 + tp.Pick(nsLeaseKeys)
			disk.FailNth = nth
			hits := disk.FailHits
			r, err := h.Do("nsunseal", Req{Op: logical.UpdateOperation, Path: "sys/namespaces/n1/unseal", Token: h.Root, Data: map[string]any{"key": nsKey}})
			s.Advance(2 * time.Second)
			disk.FailNth = 0
			if disk.FailHits > hits {
				s.Faults["err-na"]++
				note("namespace n1 unseal with a read fault on stored lease read #%d of %d -> %v %v", nth, nsLeaseKeys, err, r)
				if err == nil && (r == nil || !r.IsError()) {
					s.Probe("namespace_unseal_succeeded_despite_restore_fault")
				} else {
					s.Probe("namespace_unseal_failed_on_restore_fault")
				}
			}
		}
		if r, err := h.Do("nsunseal", Req{Op: logical.UpdateOperation, Path: "sys/namespaces/n1/unseal", Token: h.Root, Data: map[string]any{"key": nsKey}}); err == nil && (r == nil || !r.IsError()) {
			nsSealed = false
			note("namespace n1 unsealed")
			// leases that expired while the namespace was sealed are revoked now
			for _, l := range leases {
				if l.ns != "" && !l.dead && time.Now().After(l.expire.Add(time.Minute)) {
					l.dead = true
				}
			}
			if !checkTracking("after-namespace-unseal") {
				return false
			}
		}
		return true
	}
	nsSeal := func() {
		if r, err := h.Do("nsseal", Req{Op: logical.UpdateOperation, Path: "sys/namespaces/n1/seal", Token: h.Root}); err == nil && (r == nil || !r.IsError()) {
			nsSealed = true
			note("namespace n1 sealed")
			s.Faults["namespace-seal"]++
		}
	}
	for i := 0; i < nOps && s.Viol == nil; i++ {
		s.Steps++
		switch tp.Pick(11) {
		case 0, 1: // issue a leased secret
			ttl, mx := durs[tp.Pick(len(durs))], durs[tp.Pick(len(durs))]
			noRenew := tp.Pick(5) == 4
			data := map[string]any{"norenew": noRenew}
			if ttl > 0 {
				data["ttl"] = secs(ttl)
			}
			if mx > 0 {
				data["max_ttl"] = secs(mx)
			}
			lns := pickNS()
			resp, err := h.Do("issue", Req{Op: logical.UpdateOperation, Path: "rec/creds/a", Token: h.Root, NS: lns, Data: data})
			if err != nil || resp == nil || resp.Secret == nil {
				note("issue secret ttl=%s max=%s -> error %v", ttl, mx, err)
				continue
			}
			l := &c05Lease{kind: "secret", id: resp.Secret.LeaseID, issue: time.Now(), backendMax: mx, mount: "rec" + lns, renewable: !noRenew, ns: lns}
			l.secID, _ = resp.Data["secret_id"].(string)
			leases = append(leases, l)
			note("issue secret %s ttl=%s max=%s -> ttl %s", l.secID, ttl, mx, resp.Secret.TTL)
			if !checkGrant(l, resp.Secret.TTL, "issue") {
				return
			}
		case 2, 3: // renew a secret
			ls := live("secret")
			if len(ls) == 0 {
				continue
			}
			l := ls[tp.Pick(len(ls))]
			inc := durs[tp.Pick(len(durs))]
			if l.ns != "" && nsSealed {
				continue
			}
			// a quarter of the renewals meet a storage error when the lease record
			// is written: the renewal fails, the lease keeps its recorded expiry -
			// and must still be revoked when THAT passes (checked at the end)
			renewFault := l.ns == "" && tp.Pick(4) == 0
			if renewFault {
				disk.FailPrefix, disk.FailOps, disk.FailNth = "sys/expire/id/", "put tx-put", 1
			}
			hitsBefore := disk.FailHits
			resp, err := h.Do("renew", Req{Op: logical.UpdateOperation, Path: "sys/leases/renew", Token: h.Root, NS: l.ns, Data: map[string]any{"lease_id": l.id, "increment": secs(inc)}})
			disk.FailNth = 0
			ok := err == nil && resp != nil && !resp.IsError() && resp.Secret != nil
			if disk.FailHits > hitsBefore {
				s.Faults["err-na"]++
				if !ok {
					s.Probe("renewal_failed_on_lease_write")
				}
			}
			note("renew %s%s +%s -> ok=%v (lease write fault: %v)", l.ns, l.secID, inc, ok, disk.FailHits > hitsBefore)
			expired := time.Now().After(l.expire)
			_, _, irr, _, _ := vault.VerifStoredLease(h.Core, storedKey(l))
			if ok && (expired || !l.renewable || irr) {
				viol("renewed-unrenewable-lease", map[string]any{"expired": expired, "renewable": l.renewable, "irrevocable": irr}, "renew of lease %s succeeded although expired=%v renewable=%v irrevocable=%v", l.id, expired, l.renewable, irr)
				return
			}
			if ok && !checkGrant(l, resp.Secret.TTL, "renew") {
				return
			}
		case 4: // token create (root: may set period)
			ttl, emx := durs[tp.Pick(len(durs))], durs[tp.Pick(len(durs))]
			var period time.Duration
			if tp.Pick(4) == 3 {
				period = []time.Duration{time.Minute, time.Hour, 100 * time.Hour}[tp.Pick(3)]
			}
			data := map[string]any{"policies": []string{"p"}, "renewable": tp.Pick(5) != 4}
			if ttl > 0 {
				data["ttl"] = ttl.String()
			}
			if emx > 0 {
				data["explicit_max_ttl"] = emx.String()
			}
			if period > 0 {
				data["period"] = period.String()
			}
			// a third of the tokens are created against a token role, whose
			// explicit max / period combine with the request's: the smaller bound wins
			createPath, roleName := "auth/token/create", ""
			if tp.Pick(3) == 0 {
				rl := tokenRoles[tp.Pick(len(tokenRoles))]
				createPath, roleName = "auth/token/create/"+rl.name, rl.name
				delete(data, "period") // (the role's period governs)
				period = rl.period
				emx = minPos(emx, rl.explicitMax)
			}
			resp, err := h.Do("tcreate", Req{Op: logical.UpdateOperation, Path: createPath, Token: h.Root, Data: data})
			if err != nil || resp == nil || resp.Auth == nil {
				note("token create %s ttl=%s emax=%s period=%s -> error", roleName, ttl, emx, period)
				continue
			}
			l := &c05Lease{kind: "token", id: resp.Auth.ClientToken, accessor: resp.Auth.Accessor, issue: time.Now(), explicitMax: emx, period: period, mount: "token", renewable: data["renewable"].(bool), role: roleName}
			leases = append(leases, l)
			note("token create %s ttl=%s emax=%s period=%s -> ttl %s", roleName, ttl, emx, period, resp.Auth.TTL)
			if !checkGrant(l, resp.Auth.TTL, "create") {
				return
			}
		case 5: // login on the recording auth method
			ttl, mx, emx := durs[tp.Pick(len(durs))], durs[tp.Pick(len(durs))], durs[tp.Pick(len(durs))]
			var period time.Duration
			if tp.Pick(4) == 3 {
				period = []time.Duration{time.Minute, time.Hour}[tp.Pick(2)]
			}
			data := map[string]any{"policies": "p"}
			if ttl > 0 {
				data["ttl"] = secs(ttl)
			}
			if mx > 0 {
				data["max_ttl"] = secs(mx)
			}
			if emx > 0 {
				data["explicit_max_ttl"] = secs(emx)
			}
			if period > 0 {
				data["period"] = secs(period)
			}
			lns := pickNS()
			resp, err := h.Do("login", Req{Op: logical.UpdateOperation, Path: "auth/rec/login", NS: lns, Data: data})
			if err != nil || resp == nil || resp.Auth == nil {
				note("login ttl=%s max=%s emax=%s period=%s -> error %v", ttl, mx, emx, period, err)
				continue
			}
			l := &c05Lease{kind: "token", id: resp.Auth.ClientToken, accessor: resp.Auth.Accessor, issue: time.Now(), backendMax: mx, explicitMax: emx, period: period, mount: "authrec" + lns, renewable: true, ns: lns}
			leases = append(leases, l)
			note("login ttl=%s max=%s emax=%s period=%s -> ttl %s", ttl, mx, emx, period, resp.Auth.TTL)
			if !checkGrant(l, resp.Auth.TTL, "login") {
				return
			}
		case 6: // renew a token
			ls := live("token")
			if len(ls) == 0 {
				continue
			}
			l := ls[tp.Pick(len(ls))]
			inc := durs[tp.Pick(len(durs))]
			if l.ns != "" && nsSealed {
				continue
			}
			trenewFault := l.ns == "" && tp.Pick(4) == 0
			if trenewFault {
				disk.FailPrefix, disk.FailOps, disk.FailNth = "sys/expire/id/", "put tx-put", 1
			}
			thitsBefore := disk.FailHits
			resp, err := h.Do("trenew", Req{Op: logical.UpdateOperation, Path: "auth/token/renew", Token: h.Root, NS: l.ns, Data: map[string]any{"token": l.id, "increment": secs(inc)}})
			disk.FailNth = 0
			ok := err == nil && resp != nil && !resp.IsError() && resp.Auth != nil
			if disk.FailHits > thitsBefore {
				s.Faults["err-na"]++
				if !ok {
					s.Probe("renewal_failed_on_lease_write")
				}
			}
			note("token renew %s +%s -> ok=%v (lease write fault: %v)", l.accessor, inc, ok, disk.FailHits > thitsBefore)
			expired := time.Now().After(l.expire.Add(slack))
			if ok && (expired || !l.renewable) {
				viol("renewed-unrenewable-lease", map[string]any{"expired": expired, "renewable": l.renewable, "irrevocable": false}, "renew of token %s succeeded although expired=%v renewable=%v", l.accessor, expired, l.renewable)
				return
			}
			if ok && !checkGrant(l, resp.Auth.TTL, "token-renew") {
				return
			}
		case 7: // lookup a token: reported ttl within the bound
			ls := live("token")
			if len(ls) == 0 {
				continue
			}
			l := ls[tp.Pick(len(ls))]
			if l.ns != "" && nsSealed {
				continue
			}
			resp, err := h.Do("lookup", Req{Op: logical.UpdateOperation, Path: "auth/token/lookup", Token: h.Root, NS: l.ns, Data: map[string]any{"token": l.id}})
			if err != nil || resp == nil || resp.IsError() || resp.Data == nil {
				if !time.Now().After(l.expire) {
					s.Probe("lookup_failed_before_expiry")
				}
				continue
			}
			if time.Now().After(l.expire.Add(slack)) {
				viol("expired-token-still-valid", nil, "token %s is past its expiry (%s ago) and still looks up", l.accessor, time.Since(l.expire))
				return
			}
		case 8: // clock jump
			// (about 0.8 s of real time per simulated day: tickers of the
			// Core keep firing; month-long jumps are kept rare)
			jumps := []time.Duration{time.Second, time.Minute, 29 * time.Minute, 3 * time.Hour, time.Minute, 25 * time.Hour, 29 * time.Minute, 3 * time.Hour, time.Second, 10 * time.Minute, 11 * time.Hour, 24 * time.Hour * 33}
			d := jumps[tp.Pick(len(jumps))]
			if d > 30*24*time.Hour && !rc.Thorough() && tp.Pick(3) != 0 {
				d = 25 * time.Hour
			}
			note("clock +%s", d)
			s.SetControlled()
			s.Drain(d, d/4+time.Second)
			s.PassThrough()
			for _, l := range leases {
				if !l.dead && time.Now().After(l.expire.Add(time.Minute)) {
					l.dead = true
				}
			}
		case 9: // restart on the durable state
			nd := disk.Fork(s)
			faultyRestore := tp.Pick(3) == 0 && len(disk.RawKeys("sys/expire/id/")) > 0
			if faultyRestore {
				// one storage read of the lease restore fails: the node may
				// give up (seal itself) or carry on, but it must not stay
				// active with stored leases it does not track
				nd.FailPrefix, nd.FailOps = "sys/expire/id/", "get tx-get"
				nd.FailNth = 1 + tp.Pick(len(disk.RawKeys("sys/expire/id/")))
			}
			// busy restore: the node is restarted under the scheduler and
			// clients renew / revoke / look up leases while the expiration
			// manager is still loading them (restore mode)
			busy := !faultyRestore && tp.Pick(3) == 0 && (len(live("secret"))+len(live("token"))) > 0
			note("restart (restore read fault: %v, requests during restore: %v)", faultyRestore, busy)
			var nh *CoreH
			var err error
			// (a restart with a restore fault runs under the scheduler as well:
			// whether the failing read comes before or after the unseal returns
			// is then a recorded scheduling decision, not the Go runtime's)
			scheduled := busy || faultyRestore
			restoreFaultDuringUnseal = false
			if scheduled {
				h.Shutdown()
				s.SetControlled()
				s.Go(fmt.Sprintf("reboot%d", i), func() { nh, err = Reboot(nd, h) })
				s.RunClients()
				restoreFaultDuringUnseal = faultyRestore && nd.FailHits > 0
				if faultyRestore {
					s.PassThrough()
				}
			} else {
				nh, err = Reboot(nd, h)
			}
			if err != nil {
				if faultyRestore && nh == nil {
					// the unseal itself ran into the injected fault or the self-shutdown: start again without fault
					nd.FailNth = 0
					nh, err = Reboot(nd, h)
				}
				if err != nil {
					panic(err)
				}
			}
			if s.Trunc {
				nh.Shutdown()
				return
			}
			old := h
			h = nh
			disk = nh.Disk
			if !scheduled {
				old.Shutdown()
			}
			s.Faults["crash"]++
			if busy {
				_, _, _, restoring := vault.VerifTrackedLeases(h.Core)
				if restoring {
					s.Probe("requests_issued_in_restore_mode")
				}
				type wres struct {
					l    *c05Lease
					kind string
					resp *logical.Response
					err  error
					inc  time.Duration
				}
				var ws []*wres
				used := map[*c05Lease]bool{}
				for j := 0; j < 1+tp.Pick(3); j++ {
					all := append(live("secret"), live("token")...)
					l := all[tp.Pick(len(all))]
					if used[l] {
						continue
					}
					used[l] = true
					w := &wres{l: l, inc: durs[tp.Pick(len(durs))]}
					ws = append(ws, w)
					tag := fmt.Sprintf("w%d_%d", i, j)
					switch {
					case l.kind == "secret" && tp.Pick(4) == 0:
						w.kind = "revoke"
						s.Go(tag, func() {
							w.resp, w.err = h.Do(tag, Req{Op: logical.UpdateOperation, Path: "sys/leases/revoke", Token: h.Root, Data: map[string]any{"lease_id": l.id}})
						})
					case l.kind == "secret":
						w.kind = "renew"
						s.Go(tag, func() {
							w.resp, w.err = h.Do(tag, Req{Op: logical.UpdateOperation, Path: "sys/leases/renew", Token: h.Root, Data: map[string]any{"lease_id": l.id, "increment": secs(w.inc)}})
						})
					default:
						w.kind = "trenew"
						s.Go(tag, func() {
							w.resp, w.err = h.Do(tag, Req{Op: logical.UpdateOperation, Path: "auth/token/renew", Token: h.Root, Data: map[string]any{"token": l.id, "increment": secs(w.inc)}})
						})
					}
				}
				s.Run()
				s.PassThrough()
				if s.Trunc {
					return
				}
				for _, w := range ws {
					ok := w.err == nil && w.resp != nil && !w.resp.IsError()
					note("during restore: %s %s -> ok=%v", w.kind, w.l.secID+w.l.accessor, ok)
					switch w.kind {
					case "revoke":
						if ok {
							w.l.dead = true
						}
					case "renew":
						if ok && w.resp.Secret != nil {
							if !w.l.renewable || time.Now().After(w.l.expire.Add(slack)) {
								viol("renewed-unrenewable-lease", map[string]any{"expired": time.Now().After(w.l.expire), "renewable": w.l.renewable, "irrevocable": false}, "renew of lease %s during restore succeeded although renewable=%v", w.l.id, w.l.renewable)
								return
							}
							if !checkGrant(w.l, w.resp.Secret.TTL, "renew") {
								return
							}
						}
					case "trenew":
						if ok && w.resp.Auth != nil {
							if !w.l.renewable {
								viol("renewed-unrenewable-lease", map[string]any{"expired": false, "renewable": false, "irrevocable": false}, "renew of token %s during restore succeeded although it is not renewable", w.l.accessor)
								return
							}
							if !checkGrant(w.l, w.resp.Auth.TTL, "token-renew") {
								return
							}
						}
					}
				}
			}
			if faultyRestore {
				s.SetControlled()
				s.Drain(10*time.Second, 2*time.Second)
				s.PassThrough()
				if nd.FailHits > 0 {
					s.Faults["err-na"]++
					s.Probe("restore_read_fault_fired")
					restoreFaultFired = true
				}
				nd.FailNth = 0
				if h.Core.Sealed() {
					// gave up: bring it back on the same durable state
					s.Probe("node_sealed_itself_after_restore_fault")
					note("node sealed itself; restart again")
					nh2, err := Reboot(disk.Fork(s), h)
					if err != nil {
						panic(err)
					}
					old := h
					h = nh2
					disk = nh2.Disk
					old.Shutdown()
				} else if nd.FailHits > 0 {
					s.Probe("node_stayed_active_after_restore_fault")
				}
			}
			if nsMode == "sealable" {
				// a restarted node has the namespace sealed until its own share is supplied again
				nsSealed = true
				if !checkTracking("after-restart") {
					return
				}
				if r, err := h.Do("nsunseal", Req{Op: logical.UpdateOperation, Path: "sys/namespaces/n1/unseal", Token: h.Root, Data: map[string]any{"key": nsKey}}); err == nil && (r == nil || !r.IsError()) {
					nsSealed = false
					for _, l := range leases {
						if l.ns != "" && !l.dead && time.Now().After(l.expire.Add(time.Minute)) {
							l.dead = true
						}
					}
				}
			}
			if !checkTracking("after-restart") {
				return
			}
		case 10:
			if nsMode == "sealable" && tp.Pick(2) == 0 { // seal / unseal the namespace: its leases are unloaded / restored
				if !nsSealed {
					nsSeal()
				} else if !nsUnseal(tp.Pick(2) == 0) {
					return
				}
				continue
			}
			if tp.Pick(2) == 0 { // tune a mount maximum
				m := []string{"rec", "authrec"}[tp.Pick(2)]
				v := []time.Duration{time.Hour, 36 * time.Hour}[tp.Pick(2)]
				if v > effSysMax {
					continue
				}
				path := "sys/mounts/rec/tune"
				if m == "authrec" {
					path = "sys/auth/rec/tune"
				}
				if _, err := h.RootWrite(path, map[string]any{"max_lease_ttl": v.String()}); err == nil {
					mountMax[m] = v
					note("tune %s max=%s", m, v)
				}
			} else { // make backend revokes fail for a while
				rec.mu.Lock()
				rec.RevokeFails["*"] = 1 + tp.Pick(12)
				n := rec.RevokeFails["*"]
				rec.mu.Unlock()
				note("backend revoke fails %d times", n)
				s.Faults["backend-fail"]++
			}
		}
		if s.Viol == nil && !checkStored() {
			return
		}
	}
	if s.Viol != nil {
		return
	}
	// a sealable namespace ends half of the histories with a seal and an unseal
	// whose first attempt fails on a stored lease
	if nsMode == "sealable" && tp.Pick(2) == 0 {
		if !nsSealed {
			nsSeal()
		}
		if nsSealed && !nsUnseal(true) {
			return
		}
	}
	if !checkTracking("end") {
		return
	}
	// progress: pass every expiry plus the retry budget
	var last time.Time
	for _, l := range leases {
		if l.expire.After(last) {
			last = l.expire
		}
	}
	maxWait := 30 * time.Hour
	if rc.Thorough() {
		maxWait = 45 * 24 * time.Hour
	}
	if tp.Pick(10) == 0 {
		maxWait = 45 * 24 * time.Hour
	}
	if wait := time.Until(last); wait > 0 {
		if wait > maxWait {
			wait = maxWait // leases expiring later are simply not judged
		}
		s.SetControlled()
		s.Drain(wait+10*time.Minute, wait/8+time.Minute)
		s.PassThrough()
	}
	rec.mu.Lock()
	rec.RevokeFails = map[string]int{}
	rec.mu.Unlock()
	s.SetControlled()
	s.Drain(30*time.Minute, 2*time.Minute)
	s.PassThrough()
	if s.Trunc {
		return
	}
	pend, _, irr, _ := vault.VerifTrackedLeases(h.Core)
	irrSet := map[string]bool{}
	for _, x := range irr {
		irrSet[x] = true
	}
	sort.Strings(pend)
	for _, l := range leases {
		if l.kind != "secret" {
			continue
		}
		if storedKey(l) == "" {
			continue // namespace with its own seal: not decodable through the root barrier
		}
		_, expire, isIrr, _, ok := vault.VerifStoredLease(h.Core, storedKey(l))
		if !ok {
			rec.mu.Lock()
			n := rec.Revoked[l.secID]
			rec.mu.Unlock()
			if n == 0 {
				viol("lease-gone-without-backend-revoke", nil, "lease %s disappeared from storage but its backend never saw a revoke for %s", l.id, l.secID)
				return
			}
			continue
		}
		if isIrr || irrSet[l.id] {
			s.Probe("lease_irrevocable")
			continue
		}
		if time.Now().After(expire.Add(20 * time.Minute)) {
			viol("expired-lease-still-present", nil, "lease %s expired %s ago and is neither gone nor irrevocable", l.id, time.Since(expire).Round(time.Second))
			return
		}
	}
	rc.Res.Sample = map[string]any{"history": tail(hist, 25), "leases": len(leases)}
	rc.Res.StateSig = fmt.Sprintf("%d/%s/%s", len(leases), sysDefault, sysMax)
}
