package verifsim

import (
	"bytes"
	"context"
	"encoding/binary"
	"errors"
	"fmt"
	"sort"
	"strings"

	"github.com/openbao/openbao/v2/internal/helper/namespace"
	"github.com/openbao/openbao/v2/internal/vault/barrier"
	"github.com/openbao/openbao/sdk/v2/logical"
	"github.com/openbao/openbao/sdk/v2/physical"
)

// C10 — seal state and key rotation never lose or expose data.
//
// Part (a), this file: barrier-level histories over {put, get, list, delete,
// Rotate(+CreateUpgrade), RotateRootKey, Seal, Unseal(correct | wrong | short
// | previous root key), ReloadKeyring, ReloadRootKey, standby following the
// upgrade path on a second instance over the same disk}, root and namespace
// barriers, transactional and plain disk. After every mutating operation
// EVERY write prefix of that operation is "crashed": a fresh barrier is
// built over exactly the durable prefix and must unseal with a currently
// valid root key and read back every earlier entry.
//
// Part (b), c10_core.go: the same at Core level (init with generated Shamir
// parameters, unseal with share subsets / duplicates / foreign shares,
// sys/rotate, rekey), crash at every write prefix, reboot, unseal.

func init() {
	register(&Scenario{Prop: "C10", Name: "seal-rotation", NoBubble: true, Run: runC10})
}

func runC10(rc *RunCtx) {
	switch rc.S.Tape.Pick(40) {
	case 39, 38, 37, 36:
		runC10Core(rc)
		return
	case 35:
		runC10HA(rc)
		return
	}
	runC10Barrier(rc)
}

func isSealedErr(err error) bool {
	return err != nil && (errors.Is(err, barrier.ErrBarrierSealed) || strings.Contains(err.Error(), "sealed"))
}

func runC10Barrier(rc *RunCtx) {
	s, tp := rc.S, rc.S.Tape
	plain := tp.Pick(3) == 2
	nsB := tp.Pick(3) == 2
	rc.Cfg("mode", "barrier")
	rc.Cfg("plain_disk", plain)
	rc.Cfg("namespace_barrier", nsB)
	disk := NewDisk(s)
	wrap := func(d *Disk) physical.Backend {
		if plain {
			return PlainDisk{d}
		}
		return d
	}
	ns := namespace.RootNamespace
	if nsB {
		ns = &namespace.Namespace{ID: "nsid1", UUID: "11111111-2222-3333-4444-555555555555", Path: "team/"}
	}
	ctx := namespace.ContextWithNamespace(context.Background(), ns)
	b := barrier.NewAESGCMBarrier(wrap(disk), ns)
	rk, err := b.GenerateKey()
	must(err)
	must(b.Initialize(ctx, rk, nil))
	must(b.Unseal(ctx, rk))
	var oldRoots [][]byte
	model := NewKV()
	sealed := false
	var hist []string
	note := func(f string, a ...any) {
		l := fmt.Sprintf(f, a...)
		hist = append(hist, l)
		s.Note("%s", l)
	}
	viol := func(class string, sig map[string]any, f string, a ...any) {
		s.Violate("C10", class, sig, "%s; history: %v", fmt.Sprintf(f, a...), tail(hist, 25))
	}
	var standby barrier.SecurityBarrier
	crashes := 0

	// crash at every write prefix in (from, to] of the operation just done
	crashCheck := func(op string, from int, inflightKey string, oldVal []byte, hadOld bool, newRoot []byte) bool {
		to := disk.LogLen()
		for k := from; k <= to; k++ {
			crashes++
			fd := disk.ForkAt(k, nil)
			nb := barrier.NewAESGCMBarrier(wrap(fd), ns)
			cands := [][]byte{rk}
			if newRoot != nil {
				cands = [][]byte{newRoot, rk}
			}
			ok := false
			var lastErr error
			for _, c := range cands {
				if err := nb.Unseal(ctx, c); err == nil {
					ok = true
					break
				} else {
					lastErr = err
				}
			}
			sig := map[string]any{"op": op, "level": "barrier", "write_prefix": k - from, "writes": to - from}
			if !ok {
				viol("unsealable-after-crash", sig, "after a crash at write %d of %d inside %s no currently valid root key unseals the barrier: %v", k-from, to-from, op, lastErr)
				return false
			}
			for _, key := range model.Keys() {
				want, _ := model.Get(key)
				ent, err := nb.Get(ctx, key)
				if key == inflightKey {
					// the in-flight write is old or new, never garbage
					if err != nil {
						viol("entry-unreadable-after-crash", sig, "in-flight key %q unreadable after crash at write %d of %s: %v", key, k-from, op, err)
						return false
					}
					gotOld := (ent == nil && !hadOld) || (ent != nil && hadOld && bytes.Equal(ent.Value, oldVal))
					gotNew := ent != nil && bytes.Equal(ent.Value, want)
					if !gotOld && !gotNew {
						viol("entry-garbage-after-crash", sig, "in-flight key %q reads neither its old nor its new value after a crash inside %s", key, op)
						return false
					}
					continue
				}
				if err != nil || ent == nil || !bytes.Equal(ent.Value, want) {
					viol("entry-lost-after-crash", sig, "entry %q written earlier does not read back after a crash at write %d of %d inside %s: %v", key, k-from, to-from, op, err)
					return false
				}
			}
		}
		return true
	}

	nOps := 8 + tp.Pick(16)
	if rc.Thorough() {
		nOps = 8 + tp.Pick(40)
	}
	nval := 0
	keys := []string{"logical/a", "logical/b", "logical/d/x", "sys/p/q", "logical/d/y"}
	for i := 0; i < nOps && s.Viol == nil; i++ {
		s.Steps++
		from := disk.LogLen()
		switch op := tp.Pick(14); {
		case op <= 2: // put
			k := keys[tp.Pick(len(keys))]
			nval++
			v := []byte(fmt.Sprintf("val-%d", nval))
			old, had := model.Get(k)
			var err error
			viaTx := false
			if tb, ok := b.(logical.TransactionalStorage); ok && tp.Pick(2) == 1 && !sealed {
				viaTx = true
				var tx logical.Transaction
				tx, err = tb.BeginTx(ctx)
				if err == nil {
					err = tx.Put(ctx, &logical.StorageEntry{Key: k, Value: v})
					if err == nil {
						err = tx.Commit(ctx)
					} else {
						tx.Rollback(ctx)
					}
				}
			} else {
				err = b.Put(ctx, &logical.StorageEntry{Key: k, Value: v})
			}
			note("put %s=%s tx=%v -> %v", k, v, viaTx, err)
			if sealed {
				if !isSealedErr(err) {
					viol("sealed-barrier-served-op", map[string]any{"op": "put"}, "put while sealed returned %v", err)
					return
				}
				if disk.LogLen() != from {
					viol("sealed-barrier-wrote", nil, "put while sealed changed the disk")
					return
				}
				continue
			}
			if err != nil {
				viol("put-failed", nil, "put: %v", err)
				return
			}
			model.Put(k, v)
			raw, _ := disk.RawGet(k)
			_, active, _ := barrier.VerifTerms(b)
			if len(raw) < 4 || binary.BigEndian.Uint32(raw[:4]) != active {
				viol("write-not-under-newest-term", nil, "put of %q stored under term %d, active term %d", k, binary.BigEndian.Uint32(raw[:4]), active)
				return
			}
			if !crashCheck("put", from, k, old, had, nil) {
				return
			}
		case op == 3: // delete
			k := keys[tp.Pick(len(keys))]
			err := b.Delete(ctx, k)
			note("del %s -> %v", k, err)
			if sealed {
				if !isSealedErr(err) {
					viol("sealed-barrier-served-op", map[string]any{"op": "delete"}, "delete while sealed returned %v", err)
					return
				}
				continue
			}
			if err != nil {
				viol("delete-failed", nil, "delete: %v", err)
				return
			}
			model.Delete(k)
		case op <= 5: // get
			k := keys[tp.Pick(len(keys))]
			ent, err := b.Get(ctx, k)
			if sealed {
				if !isSealedErr(err) || ent != nil {
					viol("sealed-barrier-served-op", map[string]any{"op": "get"}, "get while sealed returned (%v,%v)", ent, err)
					return
				}
				continue
			}
			want, ok := model.Get(k)
			if err != nil || (ent != nil) != ok || (ent != nil && !bytes.Equal(ent.Value, want)) {
				viol("read-mismatch", nil, "get %q = (%v,%v), model (%q,%v)", k, ent, err, want, ok)
				return
			}
		case op == 6: // list
			l, err := b.List(ctx, "logical/")
			if sealed {
				if !isSealedErr(err) || len(l) > 0 {
					viol("sealed-barrier-served-op", map[string]any{"op": "list"}, "list while sealed returned (%v,%v)", l, err)
					return
				}
				continue
			}
			sort.Strings(l)
			if err != nil || !eqStrings(l, model.List("logical/")) {
				viol("read-mismatch", nil, "list = (%v,%v), model %v", l, err, model.List("logical/"))
				return
			}
		case op == 7 || op == 8: // rotate (+ upgrade path key)
			term, err := b.Rotate(ctx)
			note("rotate -> term %d %v", term, err)
			if sealed {
				if !isSealedErr(err) {
					viol("sealed-barrier-served-op", map[string]any{"op": "rotate"}, "rotate while sealed returned %v", err)
					return
				}
				continue
			}
			if err != nil {
				viol("rotate-failed", nil, "rotate: %v", err)
				return
			}
			if err := b.CreateUpgrade(ctx, term); err != nil {
				viol("create-upgrade-failed", nil, "CreateUpgrade(%d): %v", term, err)
				return
			}
			if !crashCheck("rotate", from, "", nil, false, nil) {
				return
			}
		case op == 9: // rotate root key
			if sealed {
				continue
			}
			nk, err := b.GenerateKey()
			must(err)
			err = b.RotateRootKey(ctx, nk)
			note("rotate-root -> %v", err)
			if err != nil {
				viol("rotate-root-failed", nil, "RotateRootKey: %v", err)
				return
			}
			if !crashCheck("rotate-root", from, "", nil, false, nk) {
				return
			}
			oldRoots = append(oldRoots, rk)
			rk = nk
		case op == 10: // seal
			if sealed {
				continue
			}
			must(b.Seal())
			sealed = true
			note("seal")
			if barrier.VerifHoldsKeyMaterial(b) {
				viol("sealed-barrier-holds-key-material", nil, "after Seal the instance still holds a keyring or cached AEADs")
				return
			}
		case op == 11: // unseal attempts
			if !sealed {
				continue
			}
			kind := tp.Pick(4)
			var key []byte
			switch kind {
			case 0:
				key = rk
			case 1:
				key, _ = b.GenerateKey()
			case 2:
				key = rk[:len(rk)/2]
			case 3:
				if len(oldRoots) == 0 {
					continue
				}
				key = oldRoots[tp.Pick(len(oldRoots))]
			}
			err := b.Unseal(ctx, append([]byte{}, key...))
			note("unseal kind=%d -> %v", kind, err)
			if kind == 0 {
				if err != nil || b.Sealed() {
					viol("correct-key-does-not-unseal", nil, "Unseal with the current root key failed: %v", err)
					return
				}
				sealed = false
			} else {
				if err == nil || !b.Sealed() {
					viol("wrong-key-unsealed", map[string]any{"key_kind": []string{"", "random", "short", "previous-root"}[kind]}, "Unseal with a %s key succeeded", []string{"", "random", "short", "previous root"}[kind])
					return
				}
				if barrier.VerifHoldsKeyMaterial(b) {
					viol("sealed-barrier-holds-key-material", nil, "after a failed Unseal the instance holds key material")
					return
				}
			}
		case op == 12: // reloads on the active instance
			if sealed {
				continue
			}
			if err := b.ReloadRootKey(ctx); err != nil {
				viol("reload-failed", nil, "ReloadRootKey: %v", err)
				return
			}
			if err := b.ReloadKeyring(ctx); err != nil {
				viol("reload-failed", nil, "ReloadKeyring: %v", err)
				return
			}
			note("reload")
		default: // standby follows
			if sealed {
				continue
			}
			if standby == nil || standby.Sealed() {
				standby = barrier.NewAESGCMBarrier(wrap(disk), ns)
				if err := standby.Unseal(ctx, rk); err != nil {
					viol("standby-cannot-unseal", nil, "standby Unseal with the current root key: %v", err)
					return
				}
				note("standby unsealed")
			}
			// follow the upgrade path, then what a standby does on promotion
			for n := 0; n < 64; n++ {
				did, _, err := standby.CheckUpgrade(ctx)
				if err != nil {
					viol("standby-upgrade-failed", nil, "CheckUpgrade: %v", err)
					return
				}
				if !did {
					break
				}
			}
			if err := standby.ReloadRootKey(ctx); err != nil {
				viol("standby-upgrade-failed", nil, "standby ReloadRootKey: %v", err)
				return
			}
			if err := standby.ReloadKeyring(ctx); err != nil {
				viol("standby-upgrade-failed", nil, "standby ReloadKeyring: %v", err)
				return
			}
			at, aa, ar := barrier.VerifTerms(b)
			st, sa, sr := barrier.VerifTerms(standby)
			sort.Slice(at, func(i, j int) bool { return at[i] < at[j] })
			sort.Slice(st, func(i, j int) bool { return st[i] < st[j] })
			same := len(at) == len(st) && aa == sa && bytes.Equal(ar, sr)
			for i := range at {
				if same && (at[i] != st[i] || !bytes.Equal(barrier.VerifTermKey(b, at[i]), barrier.VerifTermKey(standby, st[i]))) {
					same = false
				}
			}
			note("standby follow -> terms %v/%v", st, at)
			if !same {
				viol("standby-keyring-differs", nil, "standby keyring (terms %v active %d) differs from the active node's (terms %v active %d) after following the upgrade path", st, sa, at, aa)
				return
			}
			// and it can read everything
			for _, key := range model.Keys() {
				want, _ := model.Get(key)
				ent, err := standby.Get(ctx, key)
				if err != nil || ent == nil || !bytes.Equal(ent.Value, want) {
					viol("standby-cannot-read", nil, "standby cannot read %q: %v", key, err)
					return
				}
			}
			s.Probe("standby_followed")
		}
	}
	s.ProbeN("crash_prefixes", crashes)
	rc.Res.Evals = crashes + s.Steps
	rc.Res.Sample = map[string]any{"mode": "barrier", "history": tail(hist, 25), "crash_prefixes": crashes}
	rc.Res.StateSig = fmt.Sprintf("b/%v/%v/%d/%d", plain, nsB, len(oldRoots), len(model.M))
}
