//go:build verif

package barrier

// Accessors for the verification harness (/verif); injected by -overlay only.

func verifAES(b SecurityBarrier) *AESGCMBarrier {
	switch x := b.(type) {
	case *AESGCMBarrier:
		return x
	case *TransactionalAESGCMBarrier:
		return x.AESGCMBarrier
	}
	return nil
}

// VerifSetVersionByte switches the on-disk record format used for new writes.
func VerifSetVersionByte(b SecurityBarrier, v byte) {
	a := verifAES(b)
	a.l.Lock()
	a.currentAESGCMVersionByte = v
	a.l.Unlock()
}

// VerifHoldsKeyMaterial reports whether the instance holds a keyring or cached AEADs.
func VerifHoldsKeyMaterial(b SecurityBarrier) bool {
	a := verifAES(b)
	a.l.RLock()
	defer a.l.RUnlock()
	a.cacheLock.RLock()
	defer a.cacheLock.RUnlock()
	return a.keyring != nil || len(a.cache) > 0
}

// VerifTerms returns the terms in the in-memory keyring and the active one.
func VerifTerms(b SecurityBarrier) (terms []uint32, active uint32, rootKey []byte) {
	a := verifAES(b)
	a.l.RLock()
	defer a.l.RUnlock()
	if a.keyring == nil {
		return nil, 0, nil
	}
	for t := range a.keyring.keys {
		terms = append(terms, t)
	}
	return terms, a.keyring.activeTerm, append([]byte{}, a.keyring.rootKey...)
}

// VerifTermKey returns the key bytes of a term (nil if absent).
func VerifTermKey(b SecurityBarrier, term uint32) []byte {
	a := verifAES(b)
	a.l.RLock()
	defer a.l.RUnlock()
	if a.keyring == nil {
		return nil
	}
	k := a.keyring.keys[term]
	if k == nil {
		return nil
	}
	return append([]byte{}, k.Value...)
}
