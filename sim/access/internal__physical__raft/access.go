//go:build verif

package raft

// Accessors for the verification harness (/verif). Injected by -overlay only;
// never part of a shipped build. They add code; they change nothing.

import (
	"bytes"
	"io"
	"sort"

	hclog "github.com/hashicorp/go-hclog"
	raftchunking "github.com/hashicorp/go-raftchunking"
	chunktypes "github.com/hashicorp/go-raftchunking/types"

	"github.com/hashicorp/raft"
	"github.com/openbao/openbao/sdk/v2/physical"
	bolt "go.etcd.io/bbolt"
	"google.golang.org/protobuf/proto"
)

func VerifRaft(b *RaftBackend) *raft.Raft { return b.raft }
func VerifFSM(b *RaftBackend) *FSM       { return b.fsm }

// VerifFSMIndex is the index of the last entry the state machine applied.
func VerifFSMIndex(f *FSM) uint64 { return f.latestIndex.Load() }

// VerifTxnIndex is the start index recorded by a transaction.
func VerifTxnIndex(t physical.Transaction) uint64 {
	if rt, ok := t.(*RaftTransaction); ok {
		return rt.index
	}
	return 0
}

// VerifCommandLogs returns all command / configuration log entries the leader stored.
func VerifCommandLogs(b *RaftBackend) ([]*raft.Log, error) {
	first, err := b.logStore.FirstIndex()
	if err != nil {
		return nil, err
	}
	last, err := b.logStore.LastIndex()
	if err != nil {
		return nil, err
	}
	var out []*raft.Log
	for i := first; i <= last && i > 0; i++ {
		l := new(raft.Log)
		if err := b.logStore.GetLog(i, l); err != nil {
			return nil, err
		}
		if l.Type == raft.LogCommand || l.Type == raft.LogConfiguration {
			out = append(out, l)
		}
	}
	return out, nil
}

// VerifLogKind describes a command entry: "tx" or "plain", with the keys it writes.
func VerifLogKind(l *raft.Log) (kind string, writes map[string][]byte, lowest uint64, startIndex uint64) {
	if l.Type != raft.LogCommand {
		return "config", nil, 0, 0
	}
	if c, _ := VerifChunk(l); c {
		return "chunk", nil, 0, 0
	}
	cmd := &LogData{}
	if err := proto.Unmarshal(l.Data, cmd); err != nil {
		return "chunk", nil, 0, 0
	}
	kind = "plain"
	writes = map[string][]byte{}
	for _, op := range cmd.Operations {
		switch op.OpType {
		case beginTxOp:
			kind = "tx"
			if p, err := parseBeginTxOpValue(op.Value); err == nil {
				startIndex = p.Index
			}
		case putOp:
			writes[op.Key] = op.Value
		case deleteOp:
			writes[op.Key] = nil
		}
	}
	if cmd.LowestActiveIndex != nil {
		lowest = *cmd.LowestActiveIndex
	}
	return
}

// VerifDump returns the data bucket as sorted key/value pairs.
func VerifDump(f *FSM) (keys []string, vals [][]byte) {
	f.l.RLock()
	defer f.l.RUnlock()
	_ = f.db.View(func(tx *bolt.Tx) error {
		return tx.Bucket(dataBucketName).ForEach(func(k, v []byte) error {
			keys = append(keys, string(k))
			vals = append(vals, bytes.Clone(v))
			return nil
		})
	})
	// ForEach iterates in key order already; keep it explicit
	idx := make([]int, len(keys))
	for i := range idx {
		idx[i] = i
	}
	sort.SliceStable(idx, func(a, b int) bool { return keys[idx[a]] < keys[idx[b]] })
	k2 := make([]string, len(keys))
	v2 := make([][]byte, len(keys))
	for i, j := range idx {
		k2[i], v2[i] = keys[j], vals[j]
	}
	return k2, v2
}

// VerifChunk reports whether a command entry is one chunk of a value that
// was split by the chunking layer, and whether it is the last chunk.
func VerifChunk(l *raft.Log) (isChunk, last bool) {
	if l.Type != raft.LogCommand || len(l.Extensions) == 0 {
		return false, false
	}
	var ci chunktypes.ChunkInfo
	if err := proto.Unmarshal(l.Extensions, &ci); err != nil || ci.NumChunks == 0 {
		return false, false
	}
	return true, ci.SequenceNum == ci.NumChunks-1
}

// VerifApplyBatch hands entries to the state machine the way hashicorp/raft
// does: through the chunking layer in front of FSM.ApplyBatch.
func VerifApplyBatch(f *FSM, logs []*raft.Log) []any {
	return f.chunker.ApplyBatch(logs)
}

// VerifIsTxError reports whether an ApplyBatch response carries a transaction-conflict verdict.
func VerifIsTxError(resp any) bool {
	if cs, ok := resp.(raftchunking.ChunkingSuccess); ok {
		resp = cs.Response
	}
	r, ok := resp.(*FSMApplyResponse)
	if !ok {
		return false
	}
	for _, e := range r.EntrySlice {
		if e.IsTxError() {
			return true
		}
	}
	return false
}

// VerifTrackerState exposes the fast-path tracker (probes only).
func VerifTrackerLowest(f *FSM) uint64 { return f.fastTxnTracker.lowestActiveIndex() }

// VerifInstallSnapshot installs the current state of src into dst through the
// real snapshot path: BoltSnapshotStore.Open (stream out of the FSM) ->
// BoltSnapshotStore.Create/Write/Close (sink writes a bolt file) ->
// Open(file) -> FSM.Restore(installer).
func VerifInstallSnapshot(src *FSM, srcDir string, dst *FSM, dstDir string, logger hclog.Logger) error {
	srcStore, err := NewBoltSnapshotStore(srcDir, logger, src)
	if err != nil {
		return err
	}
	meta, rc, err := srcStore.Open(boltSnapshotID)
	if err != nil {
		return err
	}
	defer rc.Close()
	dstStore, err := NewBoltSnapshotStore(dstDir, logger, dst)
	if err != nil {
		return err
	}
	sink, err := dstStore.Create(1, meta.Index, meta.Term, meta.Configuration, meta.ConfigurationIndex, nil)
	if err != nil {
		return err
	}
	if _, err := io.Copy(sink, rc); err != nil {
		sink.Cancel()
		return err
	}
	if err := sink.Close(); err != nil {
		return err
	}
	_, installer, err := dstStore.Open(sink.ID())
	if err != nil {
		return err
	}
	dst.SetNoopRestore(false)
	return dst.Restore(installer)
}
