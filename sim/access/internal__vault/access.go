//go:build verif

package vault

// Accessors for the verification harness (/verif); injected by -overlay only.

import (
	"context"
	"time"

	"github.com/openbao/openbao/v2/internal/helper/namespace"
	"github.com/openbao/openbao/v2/internal/vault/barrier"
	"github.com/openbao/openbao/sdk/v2/helper/jsonutil"
)

// VerifBarrier returns the root barrier of the core.
func VerifBarrier(c *Core) barrier.SecurityBarrier { return c.barrier }

// VerifBarrierFor returns the barrier responsible for a physical key
// (namespaces/<uuid>/... of a namespace with its own seal, else the root one).
func VerifBarrierFor(c *Core, nsPath string) barrier.SecurityBarrier {
	if c.sealManager == nil {
		return c.barrier
	}
	if b := c.sealManager.NamespaceBarrierByLongestPrefix(nsPath); b != nil {
		return b
	}
	return c.barrier
}

// VerifAllBarriers returns every barrier instance the core knows (root and
// namespaces with their own seal).
func VerifAllBarriers(c *Core) []barrier.SecurityBarrier {
	out := []barrier.SecurityBarrier{c.barrier}
	if c.sealManager == nil {
		return out
	}
	c.sealManager.lock.RLock()
	defer c.sealManager.lock.RUnlock()
	c.sealManager.barrierByNamespacePath.Walk(func(_ string, v any) bool {
		if b, ok := v.(barrier.SecurityBarrier); ok && b != c.barrier {
			out = append(out, b)
		}
		return false
	})
	return out
}

// VerifTrackedLeases returns the lease ids the expiration manager tracks
// (pending timers, non-expiring, irrevocable) and whether it is still restoring.
func VerifTrackedLeases(c *Core) (pending, nonexpiring, irrevocable []string, restoring bool) {
	m := c.expiration
	if m == nil {
		return nil, nil, nil, false
	}
	m.pending.Range(func(k, _ any) bool { pending = append(pending, k.(string)); return true })
	m.nonexpiring.Range(func(k, _ any) bool { nonexpiring = append(nonexpiring, k.(string)); return true })
	m.irrevocable.Range(func(k, _ any) bool { irrevocable = append(irrevocable, k.(string)); return true })
	return pending, nonexpiring, irrevocable, m.inRestoreMode()
}

// VerifStoredLease decodes the lease entry stored under a physical key
// (sys/expire/id/...) through the root barrier.
func VerifStoredLease(c *Core, physKey string) (issue, expire time.Time, irrevocable bool, renewable bool, ok bool) {
	ent, err := c.barrier.Get(namespace.RootContext(context.Background()), physKey)
	if err != nil || ent == nil {
		return
	}
	le := new(leaseEntry)
	if err := jsonutil.DecodeJSON(ent.Value, le); err != nil {
		return
	}
	r, _ := le.renewable()
	return le.IssueTime, le.ExpireTime, le.RevokeErr != "", r, true
}

// VerifNamespaceRootToken mints the root token of a namespace the way
// generate-root does (TokenStore.rootToken in the namespace's context).
func VerifNamespaceRootToken(c *Core, nsPath string) (string, error) {
	ctx := namespace.RootContext(context.Background())
	ns, err := c.namespaceStore.GetNamespaceByPath(ctx, nsPath)
	if err != nil {
		return "", err
	}
	if ns == nil {
		return "", namespace.ErrNoNamespace
	}
	te, err := c.tokenStore.rootToken(namespace.ContextWithNamespace(ctx, ns))
	if err != nil {
		return "", err
	}
	return te.ExternalID, nil
}

// VerifPurgeCache empties the physical read cache (what an operator's restart
// or cache pressure does): the next reads reach the storage backend.
func VerifPurgeCache(c *Core) {
	if c.physicalCache != nil {
		c.physicalCache.Purge(context.Background())
	}
}
