// Package simsync is a drop-in replacement for the parts of package sync that
// openbao's own code uses. It exists only in the verification overlay
// (/verif/sim/simsync, injected at sdk/helper/simsync); it is never part of a
// shipped build.
//
// Mutex and RWMutex keep exact mutual-exclusion semantics, but a goroutine
// that has to wait parks on a channel (durably blocking inside a
// testing/synctest bubble, which sync.Mutex is not). When a Controller is
// installed and in controlled mode, the controller decides which waiter is
// granted a freed lock, so lock hand-off order becomes a seeded, replayable
// scheduling decision. Without a controller waiters are served FIFO.
//
// Everything else (WaitGroup, Once, Map, Pool, Cond, ...) is the real thing.
package simsync

import (
	"sync"
	"sync/atomic"
)

type (
	WaitGroup = sync.WaitGroup
	Once      = sync.Once
	Map       = sync.Map
	Pool      = sync.Pool
	Cond      = sync.Cond
	Locker    = sync.Locker
)

func NewCond(l Locker) *Cond                                    { return sync.NewCond(l) }
func OnceFunc(f func()) func()                                  { return sync.OnceFunc(f) }
func OnceValue[T any](f func() T) func() T                      { return sync.OnceValue(f) }
func OnceValues[T1, T2 any](f func() (T1, T2)) func() (T1, T2) { return sync.OnceValues(f) }

// Controller is implemented by the simulator.
type Controller interface {
	// Controlled reports whether lock hand-off is currently decided by the
	// controller (false: pass-through, FIFO hand-off).
	Controlled() bool
	// Enqueue is called by a goroutine that must wait for a lock, before it
	// blocks on the waiter's channel.
	Enqueue(w *Waiter)
	// Yield is asked, in controlled mode, when a goroutine is about to take a
	// FREE lock: true means "park first and let the controller decide when"
	// (used for goroutines that were not released by the controller, e.g.
	// woken by a timer, so that their order is a scheduling decision too).
	Yield() bool
	// Released is called, in controlled mode, by a goroutine that has just
	// released a lock other goroutines are waiting for. The controller may
	// park it there: whether the releaser or a waiter runs next is a
	// scheduling decision (on a real machine the waiter can overtake the
	// releaser's very next instruction).
	Released()
}

var ctl atomic.Pointer[Controller]

// SetController installs (or, with nil, removes) the controller.
func SetController(c Controller) {
	if c == nil {
		ctl.Store(nil)
		return
	}
	ctl.Store(&c)
}

func controller() Controller {
	p := ctl.Load()
	if p == nil {
		return nil
	}
	return *p
}

// Contended counts lock acquisitions that had to wait (probe).
var Contended atomic.Int64

type lockKind uint8

const (
	kindMutex lockKind = iota
	kindWrite
	kindRead
)

// core is the shared state of Mutex and RWMutex.
type core struct {
	g       sync.Mutex // guards the fields below; never held while parked
	writer  bool
	readers int
	q       []*Waiter
}

// Waiter is a goroutine parked on a lock.
type Waiter struct {
	c          *core
	kind       lockKind
	ch         chan struct{}
	controlled bool
	// Tag is for the controller's use.
	Tag any
}

// Write reports whether the waiter wants exclusive access.
func (w *Waiter) Write() bool { return w.kind != kindRead }

// LockID identifies the lock (pointer identity; never ordered or printed).
func (w *Waiter) LockID() any { return w.c }

func (c *core) free(k lockKind) bool {
	if k == kindRead {
		return !c.writer
	}
	return !c.writer && c.readers == 0
}

func (c *core) take(k lockKind) {
	if k == kindRead {
		c.readers++
	} else {
		c.writer = true
	}
}

// Grantable reports whether the lock could be granted to w right now.
func (w *Waiter) Grantable() bool {
	w.c.g.Lock()
	defer w.c.g.Unlock()
	return w.c.free(w.kind)
}

// Grant hands the lock to w if possible and wakes it.
func (w *Waiter) Grant() bool {
	c := w.c
	c.g.Lock()
	if !c.free(w.kind) {
		c.g.Unlock()
		return false
	}
	c.take(w.kind)
	c.remove(w)
	c.g.Unlock()
	close(w.ch)
	return true
}

func (c *core) remove(w *Waiter) {
	for i, x := range c.q {
		if x == w {
			c.q = append(c.q[:i], c.q[i+1:]...)
			return
		}
	}
}

func (c *core) lock(k lockKind) {
	ct := controller()
	yield := ct != nil && ct.Controlled() && ct.Yield()
	c.g.Lock()
	if c.free(k) && !yield {
		c.take(k)
		c.g.Unlock()
		return
	}
	w := &Waiter{c: c, kind: k, ch: make(chan struct{})}
	if ct != nil && ct.Controlled() {
		w.controlled = true
	}
	c.q = append(c.q, w)
	c.g.Unlock()
	Contended.Add(1)
	if w.controlled {
		ct.Enqueue(w)
	}
	<-w.ch
}

func (c *core) tryLock(k lockKind) bool {
	c.g.Lock()
	defer c.g.Unlock()
	if c.free(k) {
		c.take(k)
		return true
	}
	return false
}

// handoff grants the freed lock to uncontrolled waiters in FIFO order.
// Controlled waiters are left for the controller. Called with c.g held;
// returns the waiters to wake.
func (c *core) handoff() []*Waiter {
	var wake []*Waiter
	for i := 0; i < len(c.q); {
		w := c.q[i]
		if w.controlled {
			ct := controller()
			if ct != nil && ct.Controlled() {
				i++
				continue
			}
			// the controller went away or left controlled mode: serve FIFO
		}
		if !c.free(w.kind) {
			break
		}
		c.take(w.kind)
		c.q = append(c.q[:i], c.q[i+1:]...)
		wake = append(wake, w)
		if w.kind != kindRead {
			break
		}
	}
	return wake
}

func (c *core) unlock(k lockKind) {
	c.g.Lock()
	if k == kindRead {
		if c.readers <= 0 {
			c.g.Unlock()
			panic("sync: RUnlock of unlocked RWMutex")
		}
		c.readers--
	} else {
		if !c.writer {
			c.g.Unlock()
			panic("sync: unlock of unlocked mutex")
		}
		c.writer = false
	}
	var wake []*Waiter
	if len(c.q) > 0 {
		wake = c.handoff()
	}
	waiting := len(c.q) > 0
	c.g.Unlock()
	for _, w := range wake {
		close(w.ch)
	}
	if waiting {
		if ct := controller(); ct != nil && ct.Controlled() {
			ct.Released()
		}
	}
}

// Kick serves uncontrolled (or no-longer-controlled) waiters of the lock w
// belongs to; used by the controller when it leaves controlled mode.
func (w *Waiter) Kick() {
	c := w.c
	c.g.Lock()
	wake := c.handoff()
	c.g.Unlock()
	for _, x := range wake {
		close(x.ch)
	}
}

// Mutex is a mutual exclusion lock with the API of sync.Mutex.
type Mutex struct{ c core }

func (m *Mutex) Lock()         { m.c.lock(kindMutex) }
func (m *Mutex) Unlock()       { m.c.unlock(kindMutex) }
func (m *Mutex) TryLock() bool { return m.c.tryLock(kindMutex) }

// RWMutex is a reader/writer lock with the API of sync.RWMutex. It does not
// reproduce sync.RWMutex's writer preference (a fairness policy, not a safety
// property): a reader may acquire the lock while a writer is waiting.
type RWMutex struct{ c core }

func (m *RWMutex) Lock()          { m.c.lock(kindWrite) }
func (m *RWMutex) Unlock()        { m.c.unlock(kindWrite) }
func (m *RWMutex) RLock()         { m.c.lock(kindRead) }
func (m *RWMutex) RUnlock()       { m.c.unlock(kindRead) }
func (m *RWMutex) TryLock() bool  { return m.c.tryLock(kindWrite) }
func (m *RWMutex) TryRLock() bool { return m.c.tryLock(kindRead) }
func (m *RWMutex) RLocker() Locker {
	return (*rlocker)(m)
}

type rlocker RWMutex

func (r *rlocker) Lock()   { (*RWMutex)(r).RLock() }
func (r *rlocker) Unlock() { (*RWMutex)(r).RUnlock() }
